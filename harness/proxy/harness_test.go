//go:build go1.21

package main

// Engine-A harness for apps/proxy (added by overlay at check time).  It sets
// the package globals the way start() does and runs the shipped
// handleMessages over two harness-owned net.Conn values.

import (
	"bytes"
	"errors"
	"fmt"
	"io"
	"log/slog"
	"net"
	"net/http"
	"os"
	"os/exec"
	"strings"
	"testing"
	"time"

	"verif/mc/harness"
	"verif/mc/hsink"
	"verif/mc/mcrt"
	"verif/ref"

	circularQueue "github.com/goblimey/go-ntrip/apps/proxy/circular_queue"
	reportfeed "github.com/goblimey/go-ntrip/apps/proxy/reportfeed"
	rtcm "github.com/goblimey/go-ntrip/rtcm/handler"
	"github.com/goblimey/go-tools/dailylogger"
)

var t0 = time.Date(2023, 5, 10, 12, 0, 0, 0, time.UTC)

var realLog *dailylogger.Writer
var realLogPath string // the one file the writer has open (truncated before each execution that logs)

func TestMain(m *testing.M) {
	if os.Getenv("MC_PROP") != "C19" {
		os.Exit(m.Run())
	}
	// the proxy prints every buffer; keep the worker's result channel clean
	harness.ResultWriter = os.Stdout
	if os.Getenv("MC_SHARD") != "" || os.Getenv("MC_LIST") != "" {
		null, _ := os.OpenFile(os.DevNull, os.O_WRONLY, 0)
		os.Stdout, os.Stderr = null, null
	}
	slog.SetDefault(slog.New(slog.NewTextHandler(io.Discard, nil)))
	dir, err := os.MkdirTemp("", "c19log")
	if err != nil {
		panic(err)
	}
	// a real dailylogger.Writer (the proxy stores the concrete type) with
	// logging switched off: its Write is then a no-op inside the dependency
	realLog = dailylogger.New(dir, "data.", ".rtcm")
	realLog.DisableLogging()
	if ents, _ := os.ReadDir(dir); len(ents) == 1 {
		realLogPath = dir + "/" + ents[0].Name()
	}
	defer os.RemoveAll(dir)
	harness.Cleanup = func() { os.RemoveAll(dir) }
	// the report of an idle feed gives the template's own angle brackets; if even
	// that panics, every scenario reports it (a verdict, not a crash of the harness)
	idle := ""
	func() {
		defer func() {
			if p := recover(); p != nil {
				idleStatusPanic = fmt.Sprint(p)
			}
		}()
		idle = string(reportfeed.New(realLog, circularQueue.NewCircularQueue(2)).Status())
	}()
	templateAngles = strings.Count(idle, "<") + strings.Count(idle, ">")
	if i := strings.Index(idle, "id='messages'>"); i >= 0 {
		templateAnglesBeforeMessages = strings.Count(idle[:i+len("id='messages'>")], "<") + strings.Count(idle[:i+len("id='messages'>")], ">")
	}
	harness.Run(&harness.Prop{
		ID:             "C19",
		Rule:           "the shipped handleMessages/handleClientMessages/handleServerMessages/keepCircularQueueUpdated of the proxy (in-package harness, package globals set as start() sets them) over two harness-owned net.Conn values whose Read is a scheduling and chunking choice point and whose Write records; a status thread calls ReportFeed.Status() twice at scheduler-chosen moments. Client streams: frame whose payload reads '<b>', HTML-looking junk before a frame, CRC-valid MSM frames with short or inconsistent content before a frame, two frames, plain junk; server streams: text and binary. plus scenarios in which one peer stops reading (its Write blocks) while the other direction has traffic, and bursts of 2047, 2048, 2049 and 4096 bytes (the relay's read buffer is 2048 bytes) in both directions under the default schedule, and two sessions over the same handler, queue and report feed, one after the other and at the same time (first session ending at a frame boundary, inside a frame, or in junk). All chunkings and interleavings in the unbounded pass where it completes, otherwise deviation bound 2. Oracle: at quiescence upstream sink == client bytes and client sink == server bytes; no panic; every report's message list is (after un-escaping) the display of a prefix of the sequential framing of the client stream; the number of '<' and '>' in every report equals that of the fixed template. Non-trivial = distinct schedule trace",
		Assumptions:    []string{"TCP is replaced by in-memory net.Conn values: Read returns what was sent in explorer-chosen chunks (the client's last chunk may arrive together with io.EOF once the server's bytes have been relayed, as a TLS 1.2 peer's does), a server Read with nothing left blocks until the connection is closed, the client reports EOF only after the server's bytes have reached it; the kernel's segmentation and timing are outside the check", "in the scheduler-driven scenarios the status HTTP server (go-tools dependency) is not started and ReportFeed.Status is called directly; the loopback conformance leg runs the shipped binary with its HTTP server over real TCP", "the daily RTCM log is a real dailylogger.Writer over a scratch directory; logging is disabled in most scenarios and enabled, or switched by the status thread through ReportFeed.SetLogLevel while traffic flows, in twelve of them (file handling itself belongs to the dependency)", "'HTML-escaped' is judged on '<' and '>' only, which is what Sanitise defines"},
		Scenarios:      scenarios,
		Post:           loopbackSessions,
		QuickBudget:    60 * time.Second,
		ThoroughBudget: 10 * time.Minute,
	})
}

// loopbackSessions is the conformance leg over real TCP: the shipped proxy
// binary (main(), flags, JSON config, status HTTP server) between a client and
// an upstream server on the loopback interface.  Each case is one session (or
// two in a row); both directions must be relayed byte for byte and the status
// page must contain no more angle brackets than its template.
func loopbackSessions(r *harness.EvRun) {
	bin := os.Getenv("MC_REAL_BIN_proxy")
	if bin == "" {
		r.Extra["real_binary_pass"] = "not run (MC_REAL_BIN_proxy not set)"
		return
	}
	f := ref.Frame([]byte{0x41})
	htmlF := ref.TypedFrame(1005, 6, func(i int) byte { return []byte{0, 0, '<', 'b', '>', '!'}[i] })
	var big []byte
	for i := 0; len(big) < 70001; i++ {
		big = append(big, ref.TypedFrame(1001+i%90, 19+i%5, func(k int) byte { return byte(i + 3*k) })...)
		if i%11 == 0 {
			big = append(big, []byte("<script>x</script>\r\n")...)
		}
	}
	type sess struct{ c, s []byte }
	var quarterMB []byte
	for i := 0; len(quarterMB) < 256*1024; i++ {
		quarterMB = append(quarterMB, ref.TypedFrame(1230, 8, func(k int) byte { return byte(i + k) })...)
	}
	cases := []struct {
		name      string
		quiet     bool
		sessions  []sess
		halfClose bool
	}{
		{"the server shuts down its sending side after its last byte, the client uploads afterwards", true, []sess{{append(append([]byte{}, big[:3000]...), htmlF...), []byte("ICY 200 OK\r\n")}}, true},
		{"slow upstream: 256 KiB from the client, the server reads 1 KiB every 2 ms, the client hangs up at once", true, []sess{{quarterMB, nil}}, false},
		{"one session, frames and text", false, []sess{{append(append([]byte{}, f...), htmlF...), []byte("ICY 200 OK\r\n")}}, false},
		{"one session, quiet", true, []sess{{append(append([]byte("GET /<mount> HTTP/1.0\r\n\r\n"), htmlF...), 0xD3), []byte{0x00, 0xD3, '<', 0xFF}}}, false},
		{"70001 bytes each way", false, []sess{{big, big[:50000]}}, false},
		{"two sessions, the first ends inside a frame", false, []sess{{append(append([]byte{}, f...), htmlF[:5]...), []byte("A")}, {htmlF, []byte("B<")}}, false},
	}
	if r.NViolations() > 0 {
		r.Extra["real_binary_pass"] = "skipped: a violation was already found by the exploration"
		return
	}
	ran := 0
	for _, c := range cases {
		kind, detail := "", ""
		for attempt := 0; attempt < 3; attempt++ {
			var sessions [][2][]byte
			for _, s := range c.sessions {
				sessions = append(sessions, [2][]byte{s.c, s.s})
			}
			kind, detail = runLoopback(bin, c.quiet, sessions, c.halfClose)
			if kind == "" || kind == "skip" {
				break
			}
		}
		if kind == "skip" {
			r.Extra["real_binary_pass"] = "loopback sessions not possible here: " + detail
			return
		}
		ran++
		r.Count(1, 0, 1, 1)
		if kind != "" {
			r.Violate(harness.EvViolation{Fingerprint: "C19 real-binary " + kind, What: "TCP loopback session through the shipped proxy, case '" + c.name + "': " + kind + ": " + detail + " (failed three times in a row)",
				Case: map[string]interface{}{"case": c.name}, ReplayKind: "real-binary"})
		}
	}
	r.Extra["real_binary_pass"] = fmt.Sprintf("%d TCP loopback cases through the shipped proxy binary (main(), config file, status HTTP server) - conformance leg, not part of the exhaustive claim", ran)
}

func freePort() int {
	l, err := net.Listen("tcp", "127.0.0.1:0")
	if err != nil {
		return 0
	}
	defer l.Close()
	return l.Addr().(*net.TCPAddr).Port
}

// runLoopback runs the sessions one after the other through one proxy process.
// With halfClose the upstream server shuts down its sending side once its bytes are
// out and keeps reading; the client starts to upload only after it has all of them.
func runLoopback(bin string, quiet bool, sessions [][2][]byte, halfClose bool) (kind, detail string) {
	dir, err := os.MkdirTemp("", "c19tcp")
	if err != nil {
		return "skip", err.Error()
	}
	defer os.RemoveAll(dir)
	pProxy, pUp, pCtl := freePort(), freePort(), freePort()
	if pProxy == 0 || pUp == 0 || pCtl == 0 {
		return "skip", "no loopback ports"
	}
	cfg := fmt.Sprintf(`{"remote_host":"127.0.0.1:%d","proxy_host":"127.0.0.1","proxy_port":%d,"control_host":"127.0.0.1","control_port":%d,"record_messages":true,"message_log_directory":"%s/log"}`, pUp, pProxy, pCtl, dir)
	os.WriteFile(dir+"/config.json", []byte(cfg), 0o644)
	up, err := net.Listen("tcp", fmt.Sprintf("127.0.0.1:%d", pUp))
	if err != nil {
		return "skip", err.Error()
	}
	defer up.Close()
	type upRes struct{ got []byte }
	upCh := make(chan upRes, len(sessions))
	go func() {
		for _, s := range sessions {
			c, err := up.Accept()
			if err != nil {
				return
			}
			c.Write(s[1])
			if tc, ok := c.(*net.TCPConn); ok && halfClose {
				tc.CloseWrite()
			}
			var got []byte
			buf := make([]byte, 4096)
			slow := len(s[0]) >= 200*1024 // the big one-way case: a server that is slower than the client
			if slow {
				if tc, ok := c.(*net.TCPConn); ok {
					tc.SetReadBuffer(8192)
				}
				buf = buf[:1024]
			}
			for {
				c.SetReadDeadline(time.Now().Add(20 * time.Second))
				n, err := c.Read(buf)
				got = append(got, buf[:n]...)
				if err != nil {
					break
				}
				if slow {
					time.Sleep(2 * time.Millisecond)
				}
			}
			c.Close()
			upCh <- upRes{got}
		}
	}()
	args := []string{"-c", dir + "/config.json"}
	if quiet {
		args = append(args, "-q")
	}
	cmd := exec.Command(bin, args...)
	cmd.Dir = dir
	cmd.Env = append(os.Environ(), "GOGC=1")
	if err := cmd.Start(); err != nil {
		return "skip", err.Error()
	}
	defer func() { cmd.Process.Kill(); cmd.Wait() }()
	// the status page of the idle proxy: its angle brackets are the page's own
	idleAngles := -1
	for try := 0; try < 100 && idleAngles < 0; try++ {
		if resp, err := http.Get(fmt.Sprintf("http://127.0.0.1:%d/status/report", pCtl)); err == nil {
			body, _ := io.ReadAll(resp.Body)
			resp.Body.Close()
			if resp.StatusCode == 200 {
				idleAngles = strings.Count(string(body), "<") + strings.Count(string(body), ">")
			}
		}
		if idleAngles < 0 {
			time.Sleep(50 * time.Millisecond)
		}
	}
	for i, s := range sessions {
		var cl net.Conn
		for try := 0; try < 100; try++ {
			cl, err = net.Dial("tcp", fmt.Sprintf("127.0.0.1:%d", pProxy))
			if err == nil {
				break
			}
			time.Sleep(50 * time.Millisecond)
		}
		if err != nil {
			return "proxy-does-not-accept-connections", err.Error()
		}
		done := make(chan []byte, 1)
		go func() {
			var got []byte
			buf := make([]byte, 4096)
			for len(got) < len(s[1]) {
				cl.SetReadDeadline(time.Now().Add(20 * time.Second))
				n, err := cl.Read(buf)
				got = append(got, buf[:n]...)
				if err != nil {
					break
				}
			}
			done <- got
		}()
		var early []byte
		if halfClose {
			// all the server's bytes are here, so its FIN has reached the proxy as well
			early = <-done
			time.Sleep(300 * time.Millisecond)
		}
		for off := 0; off < len(s[0]); {
			n := 1000 + 37*off%1500
			if off+n > len(s[0]) {
				n = len(s[0]) - off
			}
			if _, err := cl.Write(s[0][off : off+n]); err != nil {
				break
			}
			off += n
		}
		fromServer := early
		if !halfClose {
			fromServer = <-done
		}
		// the operator looks at the status page while the session is open
		if resp, err := http.Get(fmt.Sprintf("http://127.0.0.1:%d/status/report", pCtl)); err == nil {
			body, _ := io.ReadAll(resp.Body)
			resp.Body.Close()
			if n := strings.Count(string(body), "<") + strings.Count(string(body), ">"); resp.StatusCode == 200 && idleAngles >= 0 && n != idleAngles {
				cl.Close()
				return "report-unescaped", fmt.Sprintf("status page has %d angle brackets with traffic, %d when idle", n, idleAngles)
			}
		}
		// half-close: the client has sent everything
		if tc, ok := cl.(*net.TCPConn); ok {
			tc.CloseWrite()
		}
		var res upRes
		select {
		case res = <-upCh:
		case <-time.After(30 * time.Second):
			cl.Close()
			return "upstream-did-not-receive-exactly-the-client-bytes", fmt.Sprintf("session %d: upstream still waiting after 30 s", i+1)
		}
		cl.Close()
		if !bytes.Equal(res.got, s[0]) {
			return "upstream-did-not-receive-exactly-the-client-bytes", fmt.Sprintf("session %d: %d bytes arrived upstream, the client sent %d", i+1, len(res.got), len(s[0]))
		}
		if !bytes.Equal(fromServer, s[1]) {
			return "client-did-not-receive-exactly-the-server-bytes", fmt.Sprintf("session %d: %d bytes arrived at the client, the server sent %d", i+1, len(fromServer), len(s[1]))
		}
	}
	return "", ""
}

var errClosed = errors.New("use of closed network connection")

// conn is an in-memory net.Conn end.
type conn struct {
	name       string
	rd         *hsink.ChunkReader
	out        *hsink.Sink
	closedCh   chan struct{} // closed by Close
	closed     bool
	eofAfter   chan struct{} // when non-nil: EOF is reported only after this is closed
	blockAtEnd bool          // Read with nothing left blocks until Close
	onWrite    func()
	// writeGate, when non-nil, makes Write block until the gate is closed: the
	// peer has stopped reading and the TCP buffers are full
	writeGate chan struct{}
	// wDeadline is what SetWriteDeadline / SetDeadline last set (virtual clock);
	// a Write still blocked at that instant fails with a timeout, as on a socket
	wDeadline time.Time
	// eofWithLastData, when set and true, allows the final Read to return its data
	// together with io.EOF
	eofWithLastData func() bool
}

func (c *conn) Read(p []byte) (int, error) {
	if mcrt.Aborting() {
		return 0, errClosed
	}
	if c.closed {
		return 0, errClosed
	}
	// the relay loops keep no state between reads but the position
	mcrt.ResetLocal(uint64(c.rd.Pos) + 1)
	mcrt.Yield("read:" + c.name)
	if c.rd.Pos >= len(c.rd.Data) {
		if c.blockAtEnd {
			mcrt.Recv2(c.closedCh)
			return 0, errClosed
		}
		if c.eofAfter != nil {
			mcrt.Recv2(c.eofAfter)
		}
		return 0, io.EOF
	}
	n, err := c.rd.Read(p)
	// a TLS 1.2 peer that hangs up right after its last record: crypto/tls returns
	// that record's data together with io.EOF.  Only once the other direction has
	// nothing left in flight (so that closing the session loses nothing), and as a
	// deviation from the default answer.
	if err == nil && c.rd.Pos >= len(c.rd.Data) && c.eofWithLastData != nil && c.eofWithLastData() && mcrt.Choose(2, "eof-with-last-data:"+c.name) == 1 {
		return n, io.EOF
	}
	return n, err
}

func (c *conn) Write(p []byte) (int, error) {
	if c.closed {
		return 0, errClosed
	}
	if c.writeGate != nil {
		if c.wDeadline.IsZero() {
			mcrt.Recv2(c.writeGate)
		} else {
			d := c.wDeadline.Sub(mcrt.Now())
			if d < 0 {
				d = 0
			}
			sl := &mcrt.Sel{}
			mcrt.SelRecv(sl, c.writeGate)
			mcrt.SelRecv(sl, mcrt.After(d))
			if sl.Do() == 1 {
				return 0, os.ErrDeadlineExceeded
			}
		}
	}
	n, err := c.out.Write(p)
	if c.onWrite != nil {
		c.onWrite()
	}
	return n, err
}

func (c *conn) Close() error {
	if !c.closed {
		c.closed = true
		mcrt.Close(c.closedCh)
	}
	return nil
}

type addr string

func (a addr) Network() string { return "mem" }
func (a addr) String() string  { return string(a) }

func (c *conn) LocalAddr() net.Addr                { return addr(c.name) }
func (c *conn) RemoteAddr() net.Addr               { return addr(c.name + "-peer") }
func (c *conn) SetDeadline(t time.Time) error      { c.wDeadline = t; return nil }
func (c *conn) SetReadDeadline(t time.Time) error  { return nil }
func (c *conn) SetWriteDeadline(t time.Time) error { c.wDeadline = t; return nil }

type obsT struct {
	toServer, toClient *hsink.Sink
	reports            []string
	returned           bool
	queueAtEnd         []rtcm.Message
	upAtStall          int
	downAtStall        int
	stallSeen          bool
}

func allZero(c []int) bool {
	for _, v := range c {
		if v != 0 {
			return false
		}
	}
	return true
}

// expectedDisplays is the display text of each message of the sequential
// framing of the client stream, produced by a handler configured as the proxy's.
func expectedDisplays(stream []byte) (out []string, fault string) {
	// segmentation by the independent reference (ref.Segment; C03 ties the
	// implementation's framing to it), each segment displayed by the library
	h := rtcm.New(t0, slog.LevelInfo)
	defer func() {
		if p := recover(); p != nil {
			fault = fmt.Sprint("display of the sequential framing panicked: ", p)
		}
	}()
	for _, sg := range ref.Segment(stream) {
		var m *rtcm.Message
		if sg.Type >= 0 {
			m, _ = h.GetMessage(sg.Raw)
		} else {
			m = rtcm.NewNonRTCM(sg.Raw)
		}
		out = append(out, m.String()+"\n")
	}
	return out, ""
}

func unescape(s string) string {
	return strings.ReplaceAll(strings.ReplaceAll(s, "&lt;", "<"), "&gt;", ">")
}

// idleStatusPanic is set when ReportFeed.Status() panics on a feed that has seen
// no traffic (measured once at start-up).
var idleStatusPanic string

// templateAngles is the number of '<' and '>' in reportfeed's fixed template,
// measured on the report of an idle feed.
var templateAngles, templateAnglesBeforeMessages int

func first(s string) string {
	if i := strings.IndexByte(s, '\n'); i >= 0 {
		s = s[:i]
	}
	if len(s) > 90 {
		s = s[:90]
	}
	return s
}

func scenarios(tier string) []*mcrt.Scenario {
	f := ref.Frame([]byte{0x41})
	html := ref.TypedFrame(1005, 6, func(i int) byte { return []byte{0, 0, '<', 'b', '>', '!'}[i] })
	mask := func(i int) byte {
		if i >= 3 && i <= 6 {
			return 0
		}
		return 0xFF
	}
	client := map[string][]byte{
		"frame":          f,
		"htmlframe+D3":   append(append([]byte{}, html...), 0xD3),
		"htmljunk+frame": append([]byte("<b>x</b>"), f...),
		"shortMSM+frame": append(ref.TypedFrame(1077, 3, nil), f...),
		"bigmasks+frame": append(ref.TypedFrame(1077, 30, mask), f...),
		"frame+frame+D3": append(append(append([]byte{}, f...), html...), 0xD3),
		"junk":           []byte("GET /x\r\n"),
		// an opening bracket with no closing one (the page's own next '>' would close the tag)
		"lt-only+frame": append([]byte("<img src=x \n"), ref.TypedFrame(1005, 6, func(i int) byte { return []byte{0, 0, '<', 'i', 'm', 'g'}[i] })...),
		"gt-only":       []byte("a > b\r\n"),
	}
	server := map[string][]byte{"text": []byte("ICY 200 OK\r\n"), "binary": {0x00, 0xD3, 0xFF, '<'}, "none": {}}
	order := []string{"frame", "htmlframe+D3", "htmljunk+frame", "shortMSM+frame", "bigmasks+frame", "frame+frame+D3", "junk", "lt-only+frame", "gt-only"}
	var scs []*mcrt.Scenario
	for _, cn := range order {
		for _, sn := range []string{"text", "binary", "none"} {
			for _, nstatus := range []int{1, 2} {
				cdata, sdata, nstatus := client[cn], server[sn], nstatus
				if tier != "thorough" && (nstatus == 2 && sn != "binary") {
					continue
				}
				if tier != "thorough" && len(cdata) > 20 && sn == "text" {
					continue
				}
				displays, fault := expectedDisplays(cdata)
				// the message log is a run-time switch (-q/-v, and the operator's
				// /status/loglevel request): off, on, and switched while traffic flows
				logModes := []string{"off"}
				if sn == "binary" && nstatus == 1 && (cn == "frame" || cn == "frame+frame+D3" || cn == "junk") {
					logModes = []string{"off", "on", "switched-off-then-on", "switched-on-then-off"}
				}
				for _, logMode := range logModes {
					logMode := logMode
					scs = append(scs, &mcrt.Scenario{
						Name:  fmt.Sprintf("client=%s server=%s status-calls=%d", cn, sn, nstatus) + map[bool]string{false: " log=" + logMode}[logMode == "off"],
						Bound: 2, Horizon: 50000, Prune: true, Full: tier == "thorough",
						Body: func(x *mcrt.X) {
							obs := &obsT{toServer: &hsink.Sink{Name: "upstream"}, toClient: &hsink.Sink{Name: "client"}}
							x.Data = obs
							// what start() sets up
							byteChan = make(chan byte)
							messageChan = make(chan rtcm.Message)
							rtcmHandler = rtcm.New(t0, slog.LevelInfo)
							mcrt.Go("HandleMessages", func() { rtcmHandler.HandleMessages(byteChan, messageChan) })
							recentMessages = circularQueue.NewCircularQueue(maxNumberOfMessagesStored)
							mcrt.Go("keepCircularQueueUpdated", func() { keepCircularQueueUpdated(messageChan, recentMessages) })
							rtcmLog = realLog
							realLog.DisableLogging()
							if logMode == "on" || logMode == "switched-off-then-on" {
								_ = os.Truncate(realLogPath, 0)
								realLog.EnableLogging()
							}
							defer realLog.DisableLogging()
							SetReportFeed(reportfeed.New(rtcmLog, recentMessages))

							serverDone := make(chan struct{})
							doneClosed := false
							cl := &conn{name: "client", rd: &hsink.ChunkReader{Data: cdata, Sizes: []int{0, 1, 3}, Reset: true}, out: obs.toClient, closedCh: make(chan struct{}), eofAfter: serverDone}
							sv := &conn{name: "server", rd: &hsink.ChunkReader{Data: sdata, Sizes: []int{0, 1, 2}, Reset: true}, out: obs.toServer, closedCh: make(chan struct{}), blockAtEnd: true}
							cl.onWrite = func() {
								if !doneClosed && obs.toClient.Len() >= len(sdata) {
									doneClosed = true
									mcrt.Close(serverDone)
								}
							}
							if len(sdata) == 0 {
								doneClosed = true
								mcrt.Close(serverDone)
							}
							cl.eofWithLastData = func() bool { return doneClosed }
							mcrt.Go("status", func() {
								for i := 0; i < nstatus; i++ {
									mcrt.Yield("status")
									switch logMode {
									case "switched-off-then-on":
										reportFeed.SetLogLevel(0)
									case "switched-on-then-off":
										_ = os.Truncate(realLogPath, 0)
										reportFeed.SetLogLevel(1)
									}
									mcrt.Yield("status")
									r := string(reportFeed.Status())
									obs.reports = append(obs.reports, r)
									mcrt.Note(uint64(len(r)))
									switch logMode {
									case "switched-off-then-on":
										mcrt.Yield("status")
										reportFeed.SetLogLevel(1)
									case "switched-on-then-off":
										mcrt.Yield("status")
										reportFeed.SetLogLevel(0)
									}
								}
							})
							handleMessages(sv, cl, false, 1)
							obs.returned = true
						},
						Check: func(x *mcrt.X) *mcrt.Failure {
							obs := x.Data.(*obsT)
							if idleStatusPanic != "" {
								return &mcrt.Failure{Kind: "panic in ReportFeed.Status on an idle feed: " + first(idleStatusPanic)}
							}
							if fault != "" {
								return &mcrt.Failure{Kind: "sequential-framing-failed", Detail: fault}
							}
							if len(x.Panics) > 0 {
								p := x.Panics[0]
								return &mcrt.Failure{Kind: "panic in " + p.Thread + ": " + first(p.Value) + " @" + p.Site, Detail: p.Stack}
							}
							if x.End == mcrt.EndHorizon {
								return &mcrt.Failure{Kind: "relay-spins-for-ever"}
							}
							if !bytes.Equal(obs.toServer.Buf, cdata) {
								return &mcrt.Failure{Kind: "upstream-did-not-receive-exactly-the-client-bytes", Detail: fmt.Sprintf("got %x want %x end=%s blocked=%v", obs.toServer.Buf, cdata, x.End, x.Blocked)}
							}
							if !bytes.Equal(obs.toClient.Buf, sdata) {
								return &mcrt.Failure{Kind: "client-did-not-receive-exactly-the-server-bytes", Detail: fmt.Sprintf("got %x want %x end=%s blocked=%v", obs.toClient.Buf, sdata, x.End, x.Blocked)}
							}
							if !obs.returned {
								return &mcrt.Failure{Kind: "handleMessages-did-not-return end=" + x.End, Detail: fmt.Sprint(x.Blocked)}
							}
							for _, b := range x.Blocked {
								// the framing and queue goroutines live as long as the process
								if b.Thread != "HandleMessages" && b.Thread != "keepCircularQueueUpdated" {
									return &mcrt.Failure{Kind: "session-goroutine-left-blocked", Detail: fmt.Sprint(x.Blocked)}
								}
							}
							for _, r := range obs.reports {
								if n := strings.Count(r, "<") + strings.Count(r, ">"); n != templateAngles {
									region := "messages"
									if i := strings.Index(r, "id='messages'>"); i >= 0 && strings.Count(r[:i+len("id='messages'>")], "<")+strings.Count(r[:i+len("id='messages'>")], ">") != templateAnglesBeforeMessages {
										region = "buffers"
									}
									return &mcrt.Failure{Kind: "report-unescaped region=" + region, Detail: fmt.Sprintf("%d angle brackets, template has %d", n, templateAngles)}
								}
								i := strings.Index(r, "id='messages'>\n")
								j := strings.LastIndex(r, "\n</div>")
								if i < 0 || j < i {
									return &mcrt.Failure{Kind: "report-malformed"}
								}
								got := unescape(r[i+len("id='messages'>\n") : j])
								ok := false
								want := "\nMessages\n\n"
								if got == want {
									ok = true
								}
								for _, d := range displays {
									want += d
									if got == want {
										ok = true
									}
								}
								if !ok {
									return &mcrt.Failure{Kind: "report-lists-something-other-than-relayed-messages", Detail: fmt.Sprintf("%q", got)}
								}
							}
							harness.Outcome(fmt.Sprintf("relayed c=%d s=%d reports=%d", len(cdata), len(sdata), len(obs.reports)))
							return nil
						},
					})
				}
			}
		}
	}
	// one peer stops reading for a while (its side's Write blocks) while the other
	// direction still has traffic: that direction must not be held up.  The gate is
	// opened by a thread that runs only when nothing else can, and at that moment
	// the traffic of the free direction must already have been relayed.
	for _, stall := range []time.Duration{time.Second, 10 * time.Minute} {
		for _, blocked := range []string{"client-not-reading", "server-not-reading"} {
			blocked, stall := blocked, stall
			cdata := append(append([]byte{}, f...), []byte("GET /x\r\n")...)
			sdata := []byte("ICY 200 OK\r\n")
			scs = append(scs, &mcrt.Scenario{
				Name: fmt.Sprintf("stalled-peer %s for %v", blocked, stall), Bound: 1, Horizon: 50000, Prune: true,
				Body: func(x *mcrt.X) {
					obs := &obsT{toServer: &hsink.Sink{Name: "upstream"}, toClient: &hsink.Sink{Name: "client"}}
					x.Data = obs
					byteChan = make(chan byte)
					messageChan = make(chan rtcm.Message)
					rtcmHandler = rtcm.New(t0, slog.LevelInfo)
					mcrt.Go("HandleMessages", func() { rtcmHandler.HandleMessages(byteChan, messageChan) })
					recentMessages = circularQueue.NewCircularQueue(maxNumberOfMessagesStored)
					mcrt.Go("keepCircularQueueUpdated", func() { keepCircularQueueUpdated(messageChan, recentMessages) })
					rtcmLog = realLog
					SetReportFeed(reportfeed.New(rtcmLog, recentMessages))
					gate := make(chan struct{})
					serverDone := make(chan struct{})
					doneClosed := false
					cl := &conn{name: "client", rd: &hsink.ChunkReader{Data: cdata, Sizes: []int{0, 3}}, out: obs.toClient, closedCh: make(chan struct{}), eofAfter: serverDone}
					sv := &conn{name: "server", rd: &hsink.ChunkReader{Data: sdata, Sizes: []int{0, 2}}, out: obs.toServer, closedCh: make(chan struct{}), blockAtEnd: true}
					if blocked == "client-not-reading" {
						cl.writeGate = gate
					} else {
						sv.writeGate = gate
					}
					cl.onWrite = func() {
						if !doneClosed && obs.toClient.Len() >= len(sdata) {
							doneClosed = true
							mcrt.Close(serverDone)
						}
					}
					mcrt.GoLow("peer-resumes-reading", func() {
						mcrt.Sleep(stall)
						// nothing else could run: what has the free direction delivered?
						obs.upAtStall, obs.downAtStall = obs.toServer.Len(), obs.toClient.Len()
						mcrt.Note(uint64(obs.upAtStall)<<16 | uint64(obs.downAtStall))
						obs.stallSeen = true
						mcrt.Close(gate)
					})
					handleMessages(sv, cl, false, 1)
					obs.returned = true
				},
				Check: func(x *mcrt.X) *mcrt.Failure {
					obs := x.Data.(*obsT)
					if len(x.Panics) > 0 {
						p := x.Panics[0]
						return &mcrt.Failure{Kind: "panic in " + p.Thread + ": " + first(p.Value) + " @" + p.Site, Detail: p.Stack}
					}
					if !bytes.Equal(obs.toServer.Buf, cdata) || !bytes.Equal(obs.toClient.Buf, sdata) {
						return &mcrt.Failure{Kind: "upstream-did-not-receive-exactly-the-client-bytes", Detail: fmt.Sprintf("stalled peer: upstream %d/%d, client %d/%d; end=%s blocked=%v", len(obs.toServer.Buf), len(cdata), len(obs.toClient.Buf), len(sdata), x.End, x.Blocked)}
					}
					// only the default placement of the gate opener (as late as possible) is judged
					if obs.stallSeen && len(x.Choices) > 0 && allZero(x.Choices) {
						if blocked == "client-not-reading" && obs.upAtStall != len(cdata) {
							return &mcrt.Failure{Kind: "relay-withheld-while-the-other-peer-is-not-reading", Detail: fmt.Sprintf("client stopped reading: upstream had only %d of %d client bytes when nothing else could run", obs.upAtStall, len(cdata))}
						}
						if blocked == "server-not-reading" && obs.downAtStall != len(sdata) {
							return &mcrt.Failure{Kind: "relay-withheld-while-the-other-peer-is-not-reading", Detail: fmt.Sprintf("server stopped reading: the client had only %d of %d server bytes when nothing else could run", obs.downAtStall, len(sdata))}
						}
					}
					harness.Outcome("stalled peer " + blocked)
					return nil
				},
			})
		}
	}
	// the proxy serves one call after another (and several at once) with the same
	// handler, queue and report feed: a later session must be relayed exactly like
	// the first, however the earlier one ended
	htmlF := ref.TypedFrame(1005, 6, func(i int) byte { return []byte{0, 0, '<', 'b', '>', '!'}[i] })
	type sess struct{ c, s []byte }
	pairs := map[string][2]sess{
		"frame|frame":               {{f, []byte("ICY 200 OK\r\n")}, {htmlF, []byte{0x00, 0xD3, '<'}}},
		"frame+partial-frame|frame": {{append(append([]byte{}, f...), htmlF[:4]...), []byte("A")}, {f, []byte("B")}},
		"junk|frame+D3":             {{[]byte("GET /<x>\r\n"), nil}, {append(append([]byte{}, htmlF...), 0xD3), []byte("C")}},
	}
	for _, pn := range []string{"frame|frame", "frame+partial-frame|frame", "junk|frame+D3"} {
		for _, concurrent := range []bool{false, true} {
			pr, concurrent := pairs[pn], concurrent
			both := append(append([]byte{}, pr[0].c...), pr[1].c...)
			displays, fault := expectedDisplays(both)
			scs = append(scs, &mcrt.Scenario{
				Name: fmt.Sprintf("two-sessions %s concurrent=%v", pn, concurrent), Bound: 1, Horizon: 100000, Prune: true,
				Body: func(x *mcrt.X) {
					obs := &obsT{toServer: &hsink.Sink{Name: "upstream"}, toClient: &hsink.Sink{Name: "client"}}
					obs2 := &obsT{toServer: &hsink.Sink{Name: "upstream2"}, toClient: &hsink.Sink{Name: "client2"}}
					x.Data = [2]*obsT{obs, obs2}
					byteChan = make(chan byte)
					messageChan = make(chan rtcm.Message)
					rtcmHandler = rtcm.New(t0, slog.LevelInfo)
					mcrt.Go("HandleMessages", func() { rtcmHandler.HandleMessages(byteChan, messageChan) })
					recentMessages = circularQueue.NewCircularQueue(maxNumberOfMessagesStored)
					mcrt.Go("keepCircularQueueUpdated", func() { keepCircularQueueUpdated(messageChan, recentMessages) })
					rtcmLog = realLog
					realLog.DisableLogging()
					SetReportFeed(reportfeed.New(rtcmLog, recentMessages))
					session := func(o *obsT, d sess, id int) {
						serverDone := make(chan struct{})
						doneClosed := len(d.s) == 0
						if doneClosed {
							mcrt.Close(serverDone)
						}
						cl := &conn{name: fmt.Sprintf("client%d", id), rd: &hsink.ChunkReader{Data: d.c, Sizes: []int{0, 3}, Reset: true}, out: o.toClient, closedCh: make(chan struct{}), eofAfter: serverDone}
						sv := &conn{name: fmt.Sprintf("server%d", id), rd: &hsink.ChunkReader{Data: d.s, Sizes: []int{0, 2}, Reset: true}, out: o.toServer, closedCh: make(chan struct{}), blockAtEnd: true}
						cl.onWrite = func() {
							if !doneClosed && o.toClient.Len() >= len(d.s) {
								doneClosed = true
								mcrt.Close(serverDone)
							}
						}
						handleMessages(sv, cl, false, id)
						o.returned = true
						r := string(reportFeed.Status())
						o.reports = append(o.reports, r)
						mcrt.Note(uint64(len(r)))
					}
					if concurrent {
						fin := make(chan bool)
						mcrt.Go("session2", func() { session(obs2, pr[1], 2); mcrt.Send(fin, true) })
						session(obs, pr[0], 1)
						mcrt.Recv(fin)
					} else {
						session(obs, pr[0], 1)
						session(obs2, pr[1], 2)
					}
				},
				Check: func(x *mcrt.X) *mcrt.Failure {
					o := x.Data.([2]*obsT)
					if fault != "" {
						return &mcrt.Failure{Kind: "sequential-framing-failed", Detail: fault}
					}
					if len(x.Panics) > 0 {
						p := x.Panics[0]
						return &mcrt.Failure{Kind: "panic in " + p.Thread + ": " + first(p.Value) + " @" + p.Site, Detail: p.Stack}
					}
					if x.End == mcrt.EndHorizon {
						return &mcrt.Failure{Kind: "relay-spins-for-ever"}
					}
					for i := 0; i < 2; i++ {
						if !bytes.Equal(o[i].toServer.Buf, pr[i].c) {
							return &mcrt.Failure{Kind: fmt.Sprintf("session-%d upstream-did-not-receive-exactly-the-client-bytes", i+1), Detail: fmt.Sprintf("got %x want %x end=%s blocked=%v", o[i].toServer.Buf, pr[i].c, x.End, x.Blocked)}
						}
						if !bytes.Equal(o[i].toClient.Buf, pr[i].s) {
							return &mcrt.Failure{Kind: fmt.Sprintf("session-%d client-did-not-receive-exactly-the-server-bytes", i+1), Detail: fmt.Sprintf("got %x want %x end=%s blocked=%v", o[i].toClient.Buf, pr[i].s, x.End, x.Blocked)}
						}
						if !o[i].returned {
							return &mcrt.Failure{Kind: fmt.Sprintf("session-%d handleMessages-did-not-return end=%s", i+1, x.End), Detail: fmt.Sprint(x.Blocked)}
						}
						for _, r := range o[i].reports {
							if n := strings.Count(r, "<") + strings.Count(r, ">"); n != templateAngles {
								return &mcrt.Failure{Kind: "report-unescaped region=two-sessions", Detail: fmt.Sprintf("%d angle brackets, template has %d", n, templateAngles)}
							}
							if concurrent {
								continue // the two clients' bytes interleave in the parser: the listing is not defined
							}
							a := strings.Index(r, "id='messages'>\n")
							b := strings.LastIndex(r, "\n</div>")
							if a < 0 || b < a {
								return &mcrt.Failure{Kind: "report-malformed"}
							}
							got := unescape(r[a+len("id='messages'>\n") : b])
							want, ok := "\nMessages\n\n", false
							if got == want {
								ok = true
							}
							for _, d := range displays {
								want += d
								if got == want {
									ok = true
								}
							}
							if !ok {
								return &mcrt.Failure{Kind: "report-lists-something-other-than-relayed-messages", Detail: fmt.Sprintf("two sessions: %q", got)}
							}
						}
					}
					for _, b := range x.Blocked {
						if b.Thread != "HandleMessages" && b.Thread != "keepCircularQueueUpdated" {
							return &mcrt.Failure{Kind: "session-goroutine-left-blocked", Detail: fmt.Sprint(x.Blocked)}
						}
					}
					harness.Outcome(fmt.Sprintf("two sessions relayed concurrent=%v", concurrent))
					return nil
				},
			})
		}
	}
	// bursts that exactly fill, just miss and overflow the relay's 2048-byte
	// read buffer (default schedule and default chunking: everything that fits)
	build := func(n int) []byte {
		var b []byte
		fr := ref.TypedFrame(1005, 19, nil)
		for len(b)+len(fr) <= n {
			b = append(b, fr...)
		}
		for len(b) < n {
			b = append(b, '$')
		}
		return b
	}
	for _, n := range []int{2047, 2048, 2049, 4096, 70001} {
		for _, sn := range []int{0, 2048} {
			cdata, sdata := build(n), bytes.Repeat([]byte{0x5A}, sn)
			n, sn := n, sn
			scs = append(scs, &mcrt.Scenario{
				Name: fmt.Sprintf("burst client=%dB server=%dB", n, sn), DefaultOnly: true, Horizon: 8000000,
				Body: func(x *mcrt.X) {
					obs := &obsT{toServer: &hsink.Sink{Name: "upstream"}, toClient: &hsink.Sink{Name: "client"}}
					x.Data = obs
					byteChan = make(chan byte)
					messageChan = make(chan rtcm.Message)
					rtcmHandler = rtcm.New(t0, slog.LevelInfo)
					mcrt.Go("HandleMessages", func() { rtcmHandler.HandleMessages(byteChan, messageChan) })
					recentMessages = circularQueue.NewCircularQueue(maxNumberOfMessagesStored)
					mcrt.Go("keepCircularQueueUpdated", func() { keepCircularQueueUpdated(messageChan, recentMessages) })
					rtcmLog = realLog
					SetReportFeed(reportfeed.New(rtcmLog, recentMessages))
					serverDone := make(chan struct{})
					doneClosed := sn == 0
					if doneClosed {
						mcrt.Close(serverDone)
					}
					cl := &conn{name: "client", rd: &hsink.ChunkReader{Data: cdata, Sizes: []int{0}}, out: obs.toClient, closedCh: make(chan struct{}), eofAfter: serverDone}
					sv := &conn{name: "server", rd: &hsink.ChunkReader{Data: sdata, Sizes: []int{0}}, out: obs.toServer, closedCh: make(chan struct{}), blockAtEnd: true}
					cl.onWrite = func() {
						if !doneClosed && obs.toClient.Len() >= len(sdata) {
							doneClosed = true
							mcrt.Close(serverDone)
						}
					}
					handleMessages(sv, cl, false, 1)
					obs.returned = true
				},
				Check: func(x *mcrt.X) *mcrt.Failure {
					obs := x.Data.(*obsT)
					if len(x.Panics) > 0 {
						p := x.Panics[0]
						return &mcrt.Failure{Kind: "panic in " + p.Thread + ": " + first(p.Value) + " @" + p.Site, Detail: p.Stack}
					}
					if !bytes.Equal(obs.toServer.Buf, cdata) {
						return &mcrt.Failure{Kind: "upstream-did-not-receive-exactly-the-client-bytes", Detail: fmt.Sprintf("burst of %d bytes: upstream has %d bytes; end=%s", n, len(obs.toServer.Buf), x.End)}
					}
					if !bytes.Equal(obs.toClient.Buf, sdata) {
						return &mcrt.Failure{Kind: "client-did-not-receive-exactly-the-server-bytes", Detail: fmt.Sprintf("burst of %d bytes: client has %d bytes; end=%s", sn, len(obs.toClient.Buf), x.End)}
					}
					if !obs.returned {
						return &mcrt.Failure{Kind: "handleMessages-did-not-return end=" + x.End, Detail: fmt.Sprint(x.Blocked)}
					}
					harness.Outcome("burst relayed")
					return nil
				},
			})
		}
	}
	return scs
}
