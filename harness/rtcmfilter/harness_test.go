//go:build go1.21

package main

// Engine-A harness for apps/rtcmfilter, added to the package by go build
// -overlay at check time (it is not part of the repository).  It drives the
// shipped HandleMessages under the controlled scheduler.

import (
	"bytes"
	"errors"
	"fmt"
	"log/slog"
	"os"
	"sort"
	"strings"
	"testing"
	"time"

	"verif/mc/harness"
	"verif/mc/hsink"
	"verif/mc/mcrt"
	"verif/props"
	"verif/ref"

	"github.com/goblimey/go-ntrip/jsonconfig"
	rtcmh "github.com/goblimey/go-ntrip/rtcm/handler"
)

var t0 = time.Date(2023, 5, 10, 12, 0, 0, 0, time.UTC)

func TestMain(m *testing.M) {
	switch os.Getenv("MC_PROP") {
	case "C10":
		harness.Run(propC10())
	case "C11":
		harness.Run(propC11())
	default:
		os.Exit(m.Run())
	}
}

type obsT struct {
	out      *hsink.Sink
	sinks    *hsink.Sinks
	src      *hsink.ChunkReader
	returned bool
	atReturn []byte
	display  bool
	record   bool
}

// expected computes, by sequential framing with the implementation itself,
// the valid frames (concatenated) and the readable log of a stream.
func expected(stream []byte) (frames []byte, readable string, n int, fault string) {
	// segmentation by the independent reference (ref.Segment; C03 ties the
	// implementation's framing to it), each segment displayed by the library
	h := rtcmh.New(t0, slog.LevelDebug)
	defer func() {
		if p := recover(); p != nil {
			fault = fmt.Sprint("display of the sequential framing panicked: ", p)
		}
	}()
	for _, sg := range ref.Segment(stream) {
		var m *rtcmh.Message
		if sg.Type >= 0 {
			m, _ = h.GetMessage(sg.Raw)
		} else {
			m = rtcmh.NewNonRTCM(sg.Raw)
		}
		n++
		readable += fmt.Sprintf("%s\n", m.String())
	}
	frames = expectedFrames(stream)
	return
}

// expectedFrames: the valid frames of the stream by the independent reference
// segmenter (the types the implementation reports play no part).
func expectedFrames(stream []byte) (frames []byte) {
	for _, sg := range ref.Segment(stream) {
		if sg.Type >= 0 {
			frames = append(frames, sg.Raw...)
		}
	}
	return
}

func body(stream []byte, display, record, split bool, sizes []int) func(x *mcrt.X) {
	return bodyG(stream, display, record, split, sizes, false)
}

// bodyG: with gated, the output writer stalls in its first Write until a timer
// thread opens the gate - by default as late as possible (when nothing else can
// run), earlier along the explorer's alternatives.
func bodyG(stream []byte, display, record, split bool, sizes []int, gated bool) func(x *mcrt.X) {
	return bodyE(stream, display, record, split, sizes, gated, nil)
}

// bodyE: the input ends with finalErr instead of io.EOF when that is not nil.
func bodyE(stream []byte, display, record, split bool, sizes []int, gated bool, finalErr error) func(x *mcrt.X) {
	return func(x *mcrt.X) {
		var gate chan struct{}
		if gated {
			gate = make(chan struct{})
			mcrt.GoLow("gate-timer", func() { mcrt.Sleep(time.Second); mcrt.Close(gate) })
		}
		obs := &obsT{out: &hsink.Sink{Name: "stdout", Split: split, Gate: gate}, sinks: &hsink.Sinks{Split: split},
			src: &hsink.ChunkReader{Data: stream, Reset: true, Sizes: sizes, EOFWithData: true, FinalErr: finalErr}, display: display, record: record}
		x.Data = obs
		mcrt.NewDailySink = obs.sinks.New
		cfg := &jsonconfig.Config{DisplayMessages: display, RecordMessages: record, MessageLogDirectory: "logs"}
		HandleMessages(t0, obs.src, obs.out, cfg)
		obs.atReturn = append([]byte{}, obs.out.Buf...)
		mcrt.Note(uint64(len(obs.atReturn)))
		obs.returned = true
	}
}

// common checks: no panic, the call returned, only writer goroutines may still wait.
func basic(x *mcrt.X) *mcrt.Failure {
	obs := x.Data.(*obsT)
	if len(x.Panics) > 0 {
		p := x.Panics[0]
		return &mcrt.Failure{Kind: "panic in " + p.Thread + ": " + first(p.Value) + " @" + p.Site, Detail: p.Stack}
	}
	if x.End == mcrt.EndHorizon {
		return &mcrt.Failure{Kind: "does-not-terminate"}
	}
	if !obs.returned {
		return &mcrt.Failure{Kind: "HandleMessages-did-not-return end=" + x.End, Detail: fmt.Sprint(x.Blocked)}
	}
	for _, b := range x.Blocked {
		if !strings.HasPrefix(b.Thread, "apps/rtcmfilter/main.go") || !strings.HasPrefix(b.Op, "recv") {
			return &mcrt.Failure{Kind: "pipeline-goroutine-left-blocked", Detail: fmt.Sprint(x.Blocked)}
		}
	}
	return nil
}

func first(s string) string {
	if i := strings.IndexByte(s, '\n'); i >= 0 {
		s = s[:i]
	}
	if len(s) > 90 {
		s = s[:90]
	}
	return s
}

func checkC10(stream []byte) func(x *mcrt.X) *mcrt.Failure {
	wantFrames, wantText, nmsg, fault := expected(stream)
	return func(x *mcrt.X) *mcrt.Failure {
		if fault != "" {
			return &mcrt.Failure{Kind: "sequential-framing-failed", Detail: fault}
		}
		if f := basic(x); f != nil {
			return f
		}
		obs := x.Data.(*obsT)
		if !bytes.Equal(obs.out.Buf, wantFrames) {
			return &mcrt.Failure{Kind: "output-is-not-the-valid-frames-in-order", Detail: fmt.Sprintf("got %x want %x", obs.out.Buf, wantFrames)}
		}
		if obs.record {
			if got := obs.sinks.Get("rtcmfilter..rtcm").Buf; !bytes.Equal(got, wantFrames) {
				return &mcrt.Failure{Kind: "record-differs-from-output", Detail: fmt.Sprintf("got %x want %x", got, wantFrames)}
			}
		}
		if obs.display {
			if got := string(obs.sinks.Get("rtcm..txt").Buf); got != wantText {
				k := "readable-log-text-differs"
				if strings.Count(got, "Frame length") != nmsg {
					k = "readable-log-does-not-have-one-entry-per-message"
				}
				return &mcrt.Failure{Kind: k, Detail: fmt.Sprintf("got %q want %q", got, wantText)}
			}
		}
		harness.Outcome(fmt.Sprintf("messages=%d outbytes=%d", min(nmsg, 4), min(len(wantFrames)/8, 6)))
		return nil
	}
}

// mm is a header-only MSM frame with the multiple-message flag set.
func mm(t int) []byte {
	return ref.MSMFrame(&ref.MSMHeader{Type: t, Station: 1, Timestamp: 1000, Multiple: true}, nil, nil, 0)
}

func smallStreams() (map[string][]byte, []string) {
	f := ref.Frame([]byte{0x41})
	g := ref.TypedFrame(1005, 3, nil)
	bad := append([]byte{}, f...)
	bad[5] ^= 1
	m := map[string][]byte{
		"frame":            f,
		"junk+frame":       append([]byte("$G\n"), f...),
		"frame+frame":      append(append([]byte{}, f...), g...),
		"frame+junk+frame": append(append(append([]byte{}, f...), 0x0A), g...),
		"frame+truncated":  append(append([]byte{}, f...), g[:5]...),
		"badcrc+frame":     append(append([]byte{}, bad...), f...),
		"junk":             []byte("$GPGGA\n"),
		"1077/8":           ref.TypedFrame(1077, 8, nil),
		"1077/3+frame":     append(ref.TypedFrame(1077, 3, nil), f...),
		// an epoch's burst of MSMs with the 'more messages follow' flag set, cut
		// short: by the end of the input, and inside the next frame
		"msm-burst-unfinished":       append(append([]byte{}, mm(1077)...), mm(1087)...),
		"msm-burst-unfinished+trunc": append(append(append([]byte{}, mm(1077)...), mm(1087)...), g[:4]...),
	}
	var names []string
	for n := range m {
		names = append(names, n)
	}
	sort.Strings(names)
	return m, names
}

func propC10() *harness.Prop {
	return &harness.Prop{
		ID:             "C10",
		Rule:           "rtcmfilter.HandleMessages (the shipped function, in-package harness) under the controlled scheduler with harness-owned stdout, record and display writers whose every Write is a scheduling point. Schedule dimension: 9 small streams x {display,record} in {0,1}^2 x every interleaving of main, reader, framing, fan-out and 1-3 writer goroutines and every source chunking (state-key pruning; deviation bound 1/2 where the unbounded pass is cut). Input dimension: every sequence of <=2 (quick) / <=3 (thorough) segments from a 19-entry menu (valid frames, NMEA, UBX, junk with 0xD3, lone D3, bad leaders, truncations, corrupted frames) with display and record on, default schedule. plus scenarios in which single writes to the display log fail, and a stalled-writer scenario (24 distinct frames, the output writer blocks in its first Write until a timer thread lets it go, by default as late as possible), and scenarios in which the input ends in a hard read error instead of EOF, with attentive and with stalled writers (every frame read before the failure is still owed), and scenarios with a non-zero EOF tolerance configured and a source that reports EOF twice between frames or inside a frame and then carries on. Oracle at quiescence: stdout == concatenation of the valid frames of the sequential framing, record identical, display text == one String() entry per delivered message. Non-trivial = distinct schedule trace",
		Assumptions:    []string{"dailylogger.New is redirected at build time to an in-memory sink (file naming and rotation belong to the go-tools dependency)", "which segments are 'valid frames as delimited by the framing rules' is decided by the independent reference segmenter /verif/ref (C03 ties the implementation's framing to it); the readable log is compared with the implementation's own display of its sequential framing", "judged at quiescence; whether the output is complete when the call returns is C11"},
		Scenarios:      scenariosC10,
		Post:           func(r *harness.EvRun) { realBinary(r, "C10") },
		QuickBudget:    60 * time.Second,
		ThoroughBudget: 10 * time.Minute,
	}
}

func scenariosC10(tier string) []*mcrt.Scenario {
	streams, names := smallStreams()
	var scs []*mcrt.Scenario
	bound := 1
	if tier == "thorough" {
		bound = 2
	}
	// input dimension, default schedule
	menu := inputMenu()
	depth := 2
	if tier == "thorough" {
		depth = 3
	}
	var rec func(cur []int)
	rec = func(cur []int) {
		if len(cur) > 0 {
			var s []byte
			var nm []string
			for _, i := range cur {
				s = append(s, menu[i].b...)
				nm = append(nm, menu[i].n)
			}
			scs = append(scs, &mcrt.Scenario{Name: "input=" + strings.Join(nm, "+"), DefaultOnly: true, Horizon: 200000,
				Body: body(s, true, true, false, []int{0}), Check: checkC10(s)})
		}
		if len(cur) == depth {
			return
		}
		for i := range menu {
			rec(append(append([]int{}, cur...), i))
		}
	}
	rec(nil)
	// schedule dimension (after the cheap input scenarios so that the time
	// budget is shared among these only)
	for _, sn := range names {
		for _, d := range []bool{false, true} {
			for _, r := range []bool{false, true} {
				stream := streams[sn]
				if tier != "thorough" && d && r && len(stream) > 12 {
					continue
				}
				full := tier == "thorough" || !(d && r) || len(stream) <= 8
				scs = append(scs, &mcrt.Scenario{
					Name:  fmt.Sprintf("stream=%s display=%v record=%v", sn, d, r),
					Bound: bound, Horizon: 20000, Prune: true, Full: full,
					Body: body(stream, d, r, false, nil), Check: checkC10(stream),
				})
			}
		}
	}
	for _, n := range []int{4095, 4096, 4097, 8193, 70001} {
		bs := bigStream(n)
		scs = append(scs, &mcrt.Scenario{Name: fmt.Sprintf("input=%dB default-schedule", n), DefaultOnly: true, Horizon: 4000000,
			Body: body(bs, false, true, false, []int{0}), Check: checkC10(bs)})
	}
	// a write to the readable display log fails (any single write, one deviation
	// each): that must cost the log an entry, never the RTCM output
	for _, sn := range []string{"frame+frame", "frame+junk+frame"} {
		stream := streams[sn]
		scs = append(scs, &mcrt.Scenario{Name: "display-log-write-error stream=" + sn, Bound: 2, Horizon: 50000, Prune: true,
			Body: func(x *mcrt.X) {
				obs := &obsT{out: &hsink.Sink{Name: "stdout"}, sinks: &hsink.Sinks{MayFailTrailer: ".txt"},
					src: &hsink.ChunkReader{Data: stream, Reset: true, Sizes: []int{0}}, display: true, record: true}
				x.Data = obs
				mcrt.NewDailySink = obs.sinks.New
				HandleMessages(t0, obs.src, obs.out, &jsonconfig.Config{DisplayMessages: true, RecordMessages: true, MessageLogDirectory: "logs"})
				obs.atReturn = append([]byte{}, obs.out.Buf...)
				mcrt.Note(uint64(len(obs.atReturn)))
				obs.returned = true
			},
			Check: func(x *mcrt.X) *mcrt.Failure {
				want, _, _, fault := expected(stream)
				if fault != "" {
					return &mcrt.Failure{Kind: "sequential-framing-failed", Detail: fault}
				}
				obs := x.Data.(*obsT)
				if len(x.Panics) > 0 {
					p := x.Panics[0]
					return &mcrt.Failure{Kind: "panic in " + p.Thread + ": " + first(p.Value) + " @" + p.Site, Detail: p.Stack}
				}
				failed := obs.sinks.Get("rtcm..txt").Failed
				if !bytes.Equal(obs.out.Buf, want) {
					return &mcrt.Failure{Kind: "output-is-not-the-valid-frames-in-order", Detail: fmt.Sprintf("%d display-log write(s) failed: output has %d of %d bytes; end=%s blocked=%v", failed, len(obs.out.Buf), len(want), x.End, x.Blocked)}
				}
				if got := obs.sinks.Get("rtcmfilter..rtcm").Buf; !bytes.Equal(got, want) {
					return &mcrt.Failure{Kind: "record-differs-from-output", Detail: fmt.Sprintf("%d display-log write(s) failed", failed)}
				}
				if !obs.returned {
					return &mcrt.Failure{Kind: "HandleMessages-did-not-return end=" + x.End, Detail: fmt.Sprint(x.Blocked)}
				}
				harness.Outcome(fmt.Sprintf("display write errors=%d", failed))
				return nil
			}})
	}
	// a writer that stalls while input keeps flowing: 24 distinct frames
	var many []byte
	for i := 0; i < 24; i++ {
		many = append(many, ref.TypedFrame(1001+i, 2+i%3, func(k int) byte { return byte(8*i + k) })...)
	}
	for _, rcd := range []bool{false, true} {
		rcd := rcd
		scs = append(scs, &mcrt.Scenario{Name: fmt.Sprintf("stalled-writer 24-frames record=%v", rcd), Bound: 1, Horizon: 200000, Prune: true,
			Body: bodyG(many, false, rcd, false, []int{0}, true), Check: checkC10(many)})
	}
	// the input ends in a hard read error (device unplugged) instead of EOF: every
	// frame whose bytes were read before the failure is still part of the input
	eio := errors.New("read /dev/ttyACM0: input/output error")
	for _, sn := range []string{"frame", "frame+frame", "frame+junk+frame"} {
		for _, gated := range []bool{false, true} {
			for _, rcd := range []bool{false, true} {
				stream := streams[sn]
				scs = append(scs, &mcrt.Scenario{Name: fmt.Sprintf("hard-read-error-at-end stream=%s stalled-writer=%v record=%v", sn, gated, rcd), Bound: bound, Horizon: 50000, Prune: true, Full: true,
					Body: bodyE(stream, false, rcd, false, nil, gated, eio), Check: checkC10(stream)})
			}
		}
	}
	// a non-zero EOF tolerance in the configuration and a source that goes quiet
	// once or twice (between frames, inside a frame) and then carries on: the
	// output is that of the uninterrupted stream
	for _, sn := range []string{"frame+frame", "frame+junk+frame"} {
		stream := streams[sn]
		for _, at := range []int{3, len(streams["frame"]), len(stream) - 2} {
			for _, gated := range []bool{false, true} {
				at, gated := at, gated
				scs = append(scs, &mcrt.Scenario{Name: fmt.Sprintf("quiet-source stream=%s pause-at=%d stalled-writer=%v", sn, at, gated), Bound: 1, Horizon: 50000, Prune: true,
					Body: func(x *mcrt.X) {
						var gate chan struct{}
						if gated {
							gate = make(chan struct{})
							mcrt.GoLow("gate-timer", func() { mcrt.Sleep(time.Second); mcrt.Close(gate) })
						}
						obs := &obsT{out: &hsink.Sink{Name: "stdout", Gate: gate}, sinks: &hsink.Sinks{},
							src: &hsink.ChunkReader{Data: stream, Reset: true, Sizes: []int{0, 1}, PauseAt: map[int]int{at: 2}}, display: false, record: true}
						x.Data = obs
						mcrt.NewDailySink = obs.sinks.New
						cfg := &jsonconfig.Config{RecordMessages: true, MessageLogDirectory: "logs", TimeoutOnEOFMilliSeconds: 50, WaitTimeOnEOFMilliseconds: 10}
						HandleMessages(t0, obs.src, obs.out, cfg)
						obs.atReturn = append([]byte{}, obs.out.Buf...)
						mcrt.Note(uint64(len(obs.atReturn)))
						obs.returned = true
					}, Check: checkC10(stream)})
			}
		}
	}
	for _, rcd := range []bool{false, true} {
		scs = append(scs, &mcrt.Scenario{Name: fmt.Sprintf("hard-read-error-at-end stalled-writer 24-frames record=%v", rcd), Bound: 1, Horizon: 200000, Prune: true,
			Body: bodyE(many, false, rcd, false, []int{0}, true, eio), Check: checkC10(many)})
	}
	return scs
}

// bigStream builds n bytes of valid frames (padded with text) - inputs around
// the 4096-byte buffer of bufio.Reader.
func bigStream(n int) []byte {
	var b []byte
	fr := ref.TypedFrame(1077, 22, nil)
	for len(b)+len(fr) <= n {
		b = append(b, fr...)
	}
	for len(b) < n {
		b = append(b, '$')
	}
	return b
}

type seg struct {
	n string
	b []byte
}

func inputMenu() []seg {
	f1005 := ref.TypedFrame(1005, 19, nil)
	flip := append([]byte{}, f1005...)
	flip[7] ^= 0x10
	longer := append([]byte{}, f1005...)
	longer[2]++
	return []seg{
		{"F1005/19", f1005}, {"F1006/21", ref.TypedFrame(1006, 21, nil)}, {"F1077/22", ref.TypedFrame(1077, 22, nil)},
		{"F1230/8", ref.TypedFrame(1230, 8, nil)}, {"F0/1", ref.TypedFrame(0, 1, nil)}, {"F4095/2", ref.TypedFrame(4095, 2, nil)},
		{"F1077/2", ref.TypedFrame(1077, 2, nil)}, {"F1124/7", ref.TypedFrame(1124, 7, nil)},
		{"NMEA", []byte("$GPGGA,1,2*47\r\n")}, {"UBX", []byte{0xB5, 0x62, 0x01, 0x02, 0x00, 0x00, 0x03, 0x0A}},
		{"junkD3in", []byte{0x61, 0xD3, 0x62}}, {"loneD3", []byte{0xD3}}, {"D3reserved", []byte{0xD3, 0xFF, 0x00, 0x01, 0x02}},
		{"D3zerolen", []byte{0xD3, 0x00, 0x00, 0x3E, 0xD0}}, {"trunc4", f1005[:4]}, {"trunc10", f1005[:10]},
		{"bitflip", flip}, {"len+1", longer}, {"html", []byte("<b>x</b>")},
	}
}

// ---- C11: everything written when HandleMessages returns ----

func propC11() *harness.Prop {
	return &harness.Prop{
		ID:             "C11",
		Rule:           "the shipped HandleMessages of rtcmfilter and of displayrtcm3 (in-package harnesses) under the controlled scheduler; the output writer's Write is a scheduling point (a slow writer is a writer goroutine that is not scheduled) and in half the scenarios each Write happens in two steps; streams with 1, 2 and 3 messages x optional logs on/off x all interleavings (state-key pruning) and deviation bounds 0..2. Oracle evaluated at the instant the call returns on the calling thread: the writer holds the complete expected output. Non-trivial = distinct schedule trace",
		Assumptions:    []string{"only the writer passed to the entry point is judged", "expected output = what the implementation produces for the same bytes when framed sequentially (rtcmfilter: valid frames; displayrtcm3: heading + one String() per message)"},
		Scenarios:      scenariosC11,
		Post:           func(r *harness.EvRun) { realBinary(r, "C11") },
		QuickBudget:    60 * time.Second,
		ThoroughBudget: 10 * time.Minute,
	}
}

func scenariosC11(tier string) []*mcrt.Scenario {
	streams, _ := smallStreams()
	var scs []*mcrt.Scenario
	for _, sn := range []string{"frame", "frame+frame", "frame+junk+frame", "1077/8", "badcrc+frame", "msm-burst-unfinished", "msm-burst-unfinished+trunc"} {
		for _, logs := range []bool{false, true} {
			for _, split := range []bool{false, true} {
				stream := streams[sn]
				if logs && tier != "thorough" && len(stream) > 8 {
					continue
				}
				want, _, _, fault := expected(stream)
				scs = append(scs, &mcrt.Scenario{
					Name:  fmt.Sprintf("rtcmfilter stream=%s logs=%v splitwrite=%v", sn, logs, split),
					Bound: 2, Horizon: 20000, Prune: true, Full: true,
					Body: body(stream, logs, logs, split, nil),
					Check: func(x *mcrt.X) *mcrt.Failure {
						if fault != "" {
							return &mcrt.Failure{Kind: "sequential-framing-failed", Detail: fault}
						}
						if f := basic(x); f != nil {
							return f
						}
						obs := x.Data.(*obsT)
						if !bytes.Equal(obs.atReturn, want) {
							return &mcrt.Failure{Kind: "app=rtcmfilter returned-before-writer-finished",
								Detail: fmt.Sprintf("%d of %d output bytes written when HandleMessages returned", len(obs.atReturn), len(want))}
						}
						harness.Outcome("rtcmfilter complete-at-return")
						return nil
					},
				})
			}
		}
	}
	// twelve valid frames that each carry an error from the time conversion (QZSS
	// MSMs; a GLONASS day 7), spread between ordinary ones: a count of 'bad' frames
	// must not end the session
	var errs []byte
	for i := 0; i < 14; i++ {
		switch {
		case i%7 == 3:
			errs = append(errs, ref.TypedFrame(1005, 19, nil)...)
		case i%2 == 0:
			errs = append(errs, ref.TypedFrame(1117, 8, func(k int) byte { return byte(i) })...)
		default:
			errs = append(errs, ref.TypedFrame(1087, 8, func(k int) byte {
				if k == 3 {
					return 0xE0
				}
				return byte(i)
			})...)
		}
	}
	errs = append(errs, ref.TypedFrame(1230, 8, nil)...)
	{
		wantE, _, _, faultE := expected(errs)
		scs = append(scs, &mcrt.Scenario{Name: "rtcmfilter many-frames-with-time-errors default-schedule", DefaultOnly: true, Horizon: 4000000,
			Body: body(errs, false, false, false, []int{0}),
			Check: func(x *mcrt.X) *mcrt.Failure {
				if faultE != "" {
					return &mcrt.Failure{Kind: "sequential-framing-failed", Detail: faultE}
				}
				if f := basic(x); f != nil {
					return f
				}
				obs := x.Data.(*obsT)
				if !bytes.Equal(obs.atReturn, wantE) {
					return &mcrt.Failure{Kind: "app=rtcmfilter returned-before-writer-finished", Detail: fmt.Sprintf("%d of %d output bytes written when HandleMessages returned (15 valid frames, 12 of them with a time error)", len(obs.atReturn), len(wantE))}
				}
				harness.Outcome("rtcmfilter complete-at-return")
				return nil
			}})
	}
	for _, n := range []int{4096, 4097, 70001} {
		bs := bigStream(n)
		wantB, _, _, faultB := expected(bs)
		scs = append(scs, &mcrt.Scenario{Name: fmt.Sprintf("rtcmfilter input=%dB default-schedule", n), DefaultOnly: true, Horizon: 4000000,
			Body: body(bs, false, false, false, []int{0}),
			Check: func(x *mcrt.X) *mcrt.Failure {
				if faultB != "" {
					return &mcrt.Failure{Kind: "sequential-framing-failed", Detail: faultB}
				}
				if f := basic(x); f != nil {
					return f
				}
				obs := x.Data.(*obsT)
				if !bytes.Equal(obs.atReturn, wantB) {
					return &mcrt.Failure{Kind: "app=rtcmfilter returned-before-writer-finished", Detail: fmt.Sprintf("%d of %d output bytes written when HandleMessages returned (%d-byte input)", len(obs.atReturn), len(wantB), len(bs))}
				}
				harness.Outcome("rtcmfilter complete-at-return")
				return nil
			}})
	}
	var many []byte
	for i := 0; i < 24; i++ {
		many = append(many, ref.TypedFrame(1001+i, 2+i%3, func(k int) byte { return byte(8*i + k) })...)
	}
	wantMany, _, _, faultMany := expected(many)
	scs = append(scs, &mcrt.Scenario{Name: "rtcmfilter stalled-writer 24-frames", Bound: 1, Horizon: 200000, Prune: true,
		Body: bodyG(many, false, false, false, []int{0}, true),
		Check: func(x *mcrt.X) *mcrt.Failure {
			if faultMany != "" {
				return &mcrt.Failure{Kind: "sequential-framing-failed", Detail: faultMany}
			}
			if f := basic(x); f != nil {
				return f
			}
			obs := x.Data.(*obsT)
			if !bytes.Equal(obs.atReturn, wantMany) {
				return &mcrt.Failure{Kind: "app=rtcmfilter returned-before-writer-finished",
					Detail: fmt.Sprintf("%d of %d output bytes written (or wrong bytes) when HandleMessages returned after a stalled writer", len(obs.atReturn), len(wantMany))}
			}
			harness.Outcome("rtcmfilter complete-at-return")
			return nil
		}})
	return scs
}

var _ = props.SequentialFraming

// realBinary: the shipped rtcmfilter from main() on - flags, JSON config, real
// pipes and files - for each log configuration.  What is on standard output and
// in the day's files once the process has exited is compared with the valid
// frames of the input (C10) - which is also "nothing lost when the program
// exits right after the call returns" (C11).
func realBinary(r *harness.EvRun, id string) {
	streams, names := smallStreams()
	type in struct {
		name string
		data []byte
	}
	var inputs []in
	for _, n := range names {
		inputs = append(inputs, in{n, streams[n]})
	}
	var many []byte
	for i := 0; i < 300; i++ {
		many = append(many, ref.TypedFrame(1001+i%60, 2+i%3, func(k int) byte { return byte(8*i + k) })...)
		if i%7 == 0 {
			many = append(many, []byte("$GPGGA,junk\r\n")...)
		}
	}
	inputs = append(inputs, in{"300-frames+nmea", many}, in{"70001B", bigStream(70001)}, in{"empty", nil})
	var cases []harness.RealCase
	for _, inp := range inputs {
		for _, d := range []bool{false, true} {
			for _, rec := range []bool{false, true} {
				inp, d, rec := inp, d, rec
				if len(inp.data) > 1000 && d != rec {
					continue
				}
				want := expectedFrames(inp.data)
				_, wantText, nmsg, _ := expected(inp.data)
				cfg := fmt.Sprintf(`{"display_messages": %v, "record_messages": %v, "log_directory": "%%DIR%%/logs"}`, d, rec)
				cases = append(cases, harness.RealCase{
					Name: fmt.Sprintf("rtcmfilter -c config input=%s display=%v record=%v", inp.name, d, rec),
					Args: []string{"-c", "%DIR%/config.json"}, Files: map[string]string{"config.json": cfg}, Stdin: inp.data,
					Check: func(stdout []byte, dir string, exit error) (string, string) {
						if !bytes.Equal(stdout, want) {
							return "output-is-not-the-valid-frames-in-order", fmt.Sprintf("%d bytes on standard output, %d bytes of valid frames in the input (exit: %v)", len(stdout), len(want), exit)
						}
						var recBytes, txt []byte
						ents, _ := os.ReadDir(dir + "/logs")
						for _, e := range ents {
							b, _ := os.ReadFile(dir + "/logs/" + e.Name())
							switch {
							case strings.HasPrefix(e.Name(), "rtcmfilter.") && strings.HasSuffix(e.Name(), ".rtcm"):
								recBytes = append(recBytes, b...)
							case strings.HasPrefix(e.Name(), "rtcm.") && strings.HasSuffix(e.Name(), ".txt"):
								txt = append(txt, b...)
							}
						}
						if rec && !bytes.Equal(recBytes, want) {
							return "record-differs-from-output", fmt.Sprintf("record file holds %d bytes, output %d", len(recBytes), len(want))
						}
						if !rec && len(recBytes) > 0 {
							return "record-written-although-recording-is-off", fmt.Sprintf("%d bytes", len(recBytes))
						}
						if d && strings.Count(string(txt), "Frame length") != strings.Count(wantText, "Frame length") {
							return "readable-log-does-not-have-one-entry-per-message", fmt.Sprintf("%d entries for %d messages", strings.Count(string(txt), "Frame length"), nmsg)
						}
						if !d && len(txt) > 0 {
							return "readable-log-written-although-display-is-off", fmt.Sprintf("%d bytes", len(txt))
						}
						return "", ""
					}})
			}
		}
	}
	harness.RealBinary(r, id, "MC_REAL_BIN_rtcmfilter", cases)
}
