//go:build go1.21

package main

// Engine-A harness for apps/rtcmlogger (added by overlay at check time).
// os.Stdin / os.Stdout and dailylogger.New of main.go are redirected by the
// instrumenter to harness-owned reader, writer and in-memory record sink.

import (
	"bytes"
	"fmt"
	"io"
	"os"
	"strings"
	"testing"
	"time"

	"verif/mc/harness"
	"verif/mc/hsink"
	"verif/mc/mcrt"

	"github.com/goblimey/go-ntrip/apps/rtcmlogger/config"
)

func TestMain(m *testing.M) {
	switch os.Getenv("MC_PROP") {
	case "C16":
		harness.Run(&harness.Prop{
			ID:             "C16",
			Rule:           "the shipped start() of rtcmlogger (in-package harness) under the controlled scheduler with stdin, stdout and the daily record writer owned by the harness (every Read and Write a scheduling point); inputs {empty, 1 byte, 3 bytes with 00 and D3, 5 bytes, 8095, 8096, 8097 and 16193 bytes}; stdin chunkings {everything the buffer takes, 1 byte, 2 bytes} for the small inputs and {buffer-full, 8095, 4000} for the large ones (all chunkings in the unbounded pass); event logging off/on; two scenarios in which the record writer fails on every call (the pass-through must still complete); every interleaving of the copying loop and the recorder goroutine; and, under the default schedule, 120 start-up environments with the record in REAL files of a scratch directory: host time zone {UTC, UTC+13, UTC-11, UTC+11:30} (local date equal to, ahead of, behind the UTC date) x record directory {absent, today's record already holds data, empty records of yesterday/today/tomorrow, nested directory to be created, event log configured into the same directory} x input {0, 5, 8097 bytes} x event logging off/on, oracle: the file named for the local date in the configured directory holds (old content +) stdin when start() returns. Oracle at the instant start() returns (the process exits next): stdout == stdin and record == stdin; the recorder has terminated at quiescence; no panic. Non-trivial = distinct schedule trace",
			Assumptions:    []string{"dailylogger.New is redirected to an in-memory sink (schedule scenarios) or to a file-backed stand-in that keeps its contract - <dir>/<leader><local date><trailer>, created at construction, opened for appending, directory created on demand (record-file scenarios); rotation at midnight belongs to the go-tools dependency", "stdin errors other than EOF are not injected"},
			Scenarios:      scenarios,
			Post:           realBinary,
			QuickBudget:    45 * time.Second,
			ThoroughBudget: 6 * time.Minute,
		})
	default:
		os.Exit(m.Run())
	}
}

type obsT struct {
	out, rec           *hsink.Sink
	sinks              *hsink.Sinks
	returned           bool
	outAtRet, recAtRet []byte
}

func pattern(n int) []byte {
	b := make([]byte, n)
	for i := range b {
		b[i] = byte(i*131 + i/251)
	}
	if n >= 3 {
		b[0], b[1], b[2] = 0x00, 0xD3, 0xFF
	}
	return b
}

func first(s string) string {
	if i := strings.IndexByte(s, '\n'); i >= 0 {
		s = s[:i]
	}
	if len(s) > 90 {
		s = s[:90]
	}
	return s
}

func scenarios(tier string) []*mcrt.Scenario {
	var scs []*mcrt.Scenario
	for _, n := range []int{0, 1, 3, 5, 8095, 8096, 8097, 2*8096 + 1, 70001, 200001} {
		for _, le := range []bool{false, true} {
			for _, split := range []bool{false, true} {
				n, le, split := n, le, split
				input := pattern(n)
				sizes := []int{0, 1, 2}
				if n > 100 {
					sizes = []int{0, 8095, 4000}
				}
				scs = append(scs, &mcrt.Scenario{
					Name:  fmt.Sprintf("input=%dB logevents=%v splitwrite=%v", n, le, split),
					Bound: 2, Horizon: 200000, Prune: true, Full: true,
					Body: func(x *mcrt.X) {
						obs := &obsT{out: &hsink.Sink{Name: "stdout", Split: split}, sinks: &hsink.Sinks{Split: split}}
						x.Data = obs
						// package-level state of the program must not leak from one
						// execution into the next
						reportingReadErrors, reportingEventLogWriteErrors, reportingLogWriteErrors = true, true, true
						eventLogger = nil
						mcrt.NewDailySink = obs.sinks.New
						mcrt.Stdin = &hsink.ChunkReader{Data: input, Sizes: sizes, Reset: true} // no EOFWithData: os.Stdin is an *os.File, whose Read never returns data together with io.EOF
						mcrt.Stdout = obs.out
						cfg := &config.Config{MessageLogDirectory: "logs", LogEvents: le, EventLogDirectory: "events"}
						start(cfg)
						obs.rec = obs.sinks.Get("rtcmlogger..rtcm")
						obs.outAtRet = append([]byte{}, obs.out.Buf...)
						obs.recAtRet = append([]byte{}, obs.rec.Buf...)
						mcrt.Note(uint64(len(obs.outAtRet))<<32 | uint64(len(obs.recAtRet)))
						obs.returned = true
					},
					Check: func(x *mcrt.X) *mcrt.Failure {
						obs := x.Data.(*obsT)
						if len(x.Panics) > 0 {
							p := x.Panics[0]
							return &mcrt.Failure{Kind: "panic in " + p.Thread + ": " + first(p.Value) + " @" + p.Site, Detail: p.Stack}
						}
						if !obs.returned {
							return &mcrt.Failure{Kind: "start-did-not-return end=" + x.End, Detail: fmt.Sprint(x.Blocked)}
						}
						if !bytes.Equal(obs.outAtRet, input) {
							return &mcrt.Failure{Kind: "stdout-differs-from-stdin", Detail: fmt.Sprintf("%d bytes out, %d bytes in", len(obs.outAtRet), len(input))}
						}
						if !bytes.Equal(obs.recAtRet, input) {
							if bytes.Equal(obs.rec.Buf, input) {
								return &mcrt.Failure{Kind: "start-returned-before-recorder-wrote",
									Detail: fmt.Sprintf("%d of %d bytes in the record when start() returned; complete only later", len(obs.recAtRet), len(input))}
							}
							return &mcrt.Failure{Kind: "record-differs-from-stdin", Detail: fmt.Sprintf("record %d bytes, input %d bytes", len(obs.rec.Buf), len(input))}
						}
						if x.End != mcrt.EndAllDone {
							return &mcrt.Failure{Kind: "recorder-did-not-terminate", Detail: fmt.Sprint(x.Blocked)}
						}
						harness.Outcome(fmt.Sprintf("identical bytes=%d", n))
						return nil
					},
				})
			}
		}
	}
	// event log and record configured into the SAME directory (as with the minimal
	// config, where both default to "."): the record must still hold stdin only
	for _, n := range []int{0, 5, 8097} {
		n := n
		input := pattern(n)
		scs = append(scs, &mcrt.Scenario{
			Name:  fmt.Sprintf("same-directory-for-events-and-record input=%dB", n),
			Bound: 2, Horizon: 200000, Prune: true, Full: true,
			Body: func(x *mcrt.X) {
				obs := &obsT{out: &hsink.Sink{Name: "stdout"}, sinks: &hsink.Sinks{}}
				x.Data = obs
				reportingReadErrors, reportingEventLogWriteErrors, reportingLogWriteErrors = true, true, true
				eventLogger = nil
				mcrt.NewDailySink = obs.sinks.New
				mcrt.Stdin = &hsink.ChunkReader{Data: input, Sizes: []int{0, 4000}, Reset: true}
				mcrt.Stdout = obs.out
				start(&config.Config{MessageLogDirectory: "logs", LogEvents: true, EventLogDirectory: "logs"})
				obs.rec = obs.sinks.Get("rtcmlogger..rtcm")
				obs.outAtRet = append([]byte{}, obs.out.Buf...)
				obs.recAtRet = append([]byte{}, obs.rec.Buf...)
				mcrt.Note(uint64(len(obs.outAtRet))<<32 | uint64(len(obs.recAtRet)))
				obs.returned = true
			},
			Check: func(x *mcrt.X) *mcrt.Failure {
				obs := x.Data.(*obsT)
				if len(x.Panics) > 0 {
					p := x.Panics[0]
					return &mcrt.Failure{Kind: "panic in " + p.Thread + ": " + first(p.Value) + " @" + p.Site, Detail: p.Stack}
				}
				if !obs.returned {
					return &mcrt.Failure{Kind: "start-did-not-return end=" + x.End, Detail: fmt.Sprint(x.Blocked)}
				}
				if !bytes.Equal(obs.outAtRet, input) {
					return &mcrt.Failure{Kind: "stdout-differs-from-stdin", Detail: fmt.Sprintf("%d bytes out, %d bytes in", len(obs.outAtRet), len(input))}
				}
				if !bytes.Equal(obs.recAtRet, input) {
					return &mcrt.Failure{Kind: "record-differs-from-stdin", Detail: fmt.Sprintf("event log and record in one directory: record %d bytes, input %d bytes", len(obs.recAtRet), len(input))}
				}
				harness.Outcome("same directory: record holds stdin only")
				return nil
			},
		})
	}
	// the record writer fails on every call (disk full): recording must not
	// stop, delay or truncate the pass-through; input arrives in 1-byte blocks so
	// that many blocks follow the first failures
	for _, le := range []bool{false, true} {
		le := le
		input := pattern(9)
		scs = append(scs, &mcrt.Scenario{
			Name:  fmt.Sprintf("failing-record-writer input=9x1B logevents=%v", le),
			Bound: 1, Horizon: 200000, Prune: true, Full: true,
			Body: func(x *mcrt.X) {
				obs := &obsT{out: &hsink.Sink{Name: "stdout"}, sinks: &hsink.Sinks{Fail: true}}
				x.Data = obs
				reportingReadErrors, reportingEventLogWriteErrors, reportingLogWriteErrors = true, true, true
				eventLogger = nil
				mcrt.NewDailySink = obs.sinks.New // the event log (.log) keeps working; only the record fails
				mcrt.Stdin = &hsink.ChunkReader{Data: input, Sizes: []int{1}, Reset: true}
				mcrt.Stdout = obs.out
				start(&config.Config{MessageLogDirectory: "logs", LogEvents: le, EventLogDirectory: "events"})
				obs.outAtRet = append([]byte{}, obs.out.Buf...)
				mcrt.Note(uint64(len(obs.outAtRet)))
				obs.returned = true
			},
			Check: func(x *mcrt.X) *mcrt.Failure {
				obs := x.Data.(*obsT)
				if len(x.Panics) > 0 {
					p := x.Panics[0]
					return &mcrt.Failure{Kind: "panic in " + p.Thread + ": " + first(p.Value) + " @" + p.Site, Detail: p.Stack}
				}
				if !obs.returned {
					return &mcrt.Failure{Kind: "pass-through-stalled-when-the-record-writer-fails", Detail: fmt.Sprintf("%d of %d bytes reached stdout; end=%s blocked=%v", len(obs.out.Buf), len(input), x.End, x.Blocked)}
				}
				if !bytes.Equal(obs.outAtRet, input) {
					return &mcrt.Failure{Kind: "stdout-differs-from-stdin", Detail: fmt.Sprintf("record writer failing: %d bytes out, %d bytes in", len(obs.outAtRet), len(input))}
				}
				if x.End != mcrt.EndAllDone {
					return &mcrt.Failure{Kind: "recorder-did-not-terminate", Detail: fmt.Sprint(x.Blocked)}
				}
				harness.Outcome("pass-through survives a failing record writer")
				return nil
			},
		})
	}
	scs = append(scs, fileScenarios()...)
	return scs
}

// fileSink stands in for the go-tools daily writer with its contract kept:
// the record is the file <dir>/<leader><local date><trailer>, created when the
// writer is made and opened for appending.  The date comes from the same
// (virtual) clock the program sees.
type fileSink struct {
	f       *os.File
	noYield bool // the event log is written under log/slog's own mutex
}

func (w *fileSink) Write(b []byte) (int, error) {
	if !w.noYield {
		mcrt.Yield("record file write")
	}
	return w.f.Write(b)
}

type fileSinks struct{ open []*os.File }

func (fs *fileSinks) New(dir, leader, trailer string) io.Writer {
	if dir == "" {
		dir = "."
	}
	_ = os.MkdirAll(dir, 0o755)
	now := mcrt.Now().In(time.Local)
	name := fmt.Sprintf("%s/%s%04d-%02d-%02d%s", dir, leader, now.Year(), int(now.Month()), now.Day(), trailer)
	f, err := os.OpenFile(name, os.O_APPEND|os.O_CREATE|os.O_WRONLY, 0o644)
	if err != nil {
		panic("harness: " + err.Error())
	}
	fs.open = append(fs.open, f)
	return &fileSink{f, trailer == ".log"}
}

type fileObs struct {
	out      *hsink.Sink
	returned bool
	outAtRet []byte
	recAtRet []byte
	listing  string
}

// fileScenarios: what is in message_log_directory once start() has returned,
// over the states of the outside world the program can meet at start-up: the
// time zone of the host (local date equal to, ahead of and behind the UTC
// date), and a record directory that is absent, or already holds today's
// record with data, or holds empty records of today and the neighbouring days.
func fileScenarios() []*mcrt.Scenario {
	var scs []*mcrt.Scenario
	zones := []struct {
		name string
		off  int
	}{{"UTC", 0}, {"UTC+13", 13 * 3600}, {"UTC-11", -11 * 3600}, {"UTC+11:30", 11*3600 + 1800}}
	pres := []string{"absent", "todays-record-has-data", "empty-records-of-three-days", "subdirectory-missing-parents", "events-in-the-same-directory"}
	for _, z := range zones {
		for _, pre := range pres {
			for _, n := range []int{0, 5, 8097} {
				for _, le := range []bool{false, true} {
					z, pre, n, le := z, pre, n, le
					input := pattern(n)
					old := []byte("OLD-DATA")
					scs = append(scs, &mcrt.Scenario{
						Name:  fmt.Sprintf("record-files zone=%s dir=%s input=%dB logevents=%v", z.name, pre, n, le),
						Bound: 0, Horizon: 200000, DefaultOnly: true,
						Body: func(x *mcrt.X) {
							obs := &fileObs{out: &hsink.Sink{Name: "stdout"}}
							x.Data = obs
							root, err := os.MkdirTemp("", "c16fs")
							if err != nil {
								panic("harness: " + err.Error())
							}
							defer os.RemoveAll(root)
							savedLocal := time.Local
							time.Local = time.FixedZone(z.name, z.off)
							defer func() { time.Local = savedLocal }()
							dir := root + "/logs"
							if pre == "subdirectory-missing-parents" {
								dir = root + "/a/b/logs"
							}
							day := func(d int) string {
								t := mcrt.Now().In(time.Local).AddDate(0, 0, d)
								return fmt.Sprintf("%s/rtcmlogger.%04d-%02d-%02d.rtcm", dir, t.Year(), int(t.Month()), t.Day())
							}
							var want []byte
							switch pre {
							case "todays-record-has-data":
								_ = os.MkdirAll(dir, 0o755)
								_ = os.WriteFile(day(0), old, 0o644)
								want = append(want, old...)
							case "empty-records-of-three-days":
								_ = os.MkdirAll(dir, 0o755)
								for d := -1; d <= 1; d++ {
									_ = os.WriteFile(day(d), nil, 0o644)
								}
							}
							want = append(want, input...)
							reportingReadErrors, reportingEventLogWriteErrors, reportingLogWriteErrors = true, true, true
							eventLogger = nil
							fs := &fileSinks{}
							defer func() {
								for _, f := range fs.open {
									f.Close()
								}
							}()
							mcrt.NewDailySink = fs.New
							mcrt.Stdin = &hsink.ChunkReader{Data: input, Sizes: []int{0}, Reset: true}
							mcrt.Stdout = obs.out
							evDir := root + "/events"
							if pre == "events-in-the-same-directory" {
								evDir = dir
							}
							start(&config.Config{MessageLogDirectory: dir, LogEvents: le, EventLogDirectory: evDir})
							obs.outAtRet = append([]byte{}, obs.out.Buf...)
							// the day's record as a user finds it: by name, in the configured directory
							obs.recAtRet, _ = os.ReadFile(day(0))
							if ents, err := os.ReadDir(dir); err == nil {
								for _, e := range ents {
									st, _ := e.Info()
									obs.listing += fmt.Sprintf("%s(%d) ", e.Name(), st.Size())
								}
							} else {
								obs.listing = err.Error()
							}
							obs.returned = true
							_ = want
						},
						Check: func(x *mcrt.X) *mcrt.Failure {
							obs := x.Data.(*fileObs)
							if len(x.Panics) > 0 {
								p := x.Panics[0]
								return &mcrt.Failure{Kind: "panic in " + p.Thread + ": " + first(p.Value) + " @" + p.Site, Detail: p.Stack}
							}
							if !obs.returned {
								return &mcrt.Failure{Kind: "start-did-not-return end=" + x.End, Detail: fmt.Sprint(x.Blocked)}
							}
							if !bytes.Equal(obs.outAtRet, input) {
								return &mcrt.Failure{Kind: "stdout-differs-from-stdin", Detail: fmt.Sprintf("%d bytes out, %d bytes in", len(obs.outAtRet), len(input))}
							}
							want := append([]byte{}, input...)
							if pre == "todays-record-has-data" {
								want = append(append([]byte{}, old...), input...)
							}
							if !bytes.Equal(obs.recAtRet, want) {
								return &mcrt.Failure{Kind: "days-record-file-in-the-configured-directory-differs-from-stdin",
									Detail: fmt.Sprintf("record file holds %d bytes, expected %d; directory: %s", len(obs.recAtRet), len(want), obs.listing)}
							}
							if x.End != mcrt.EndAllDone {
								return &mcrt.Failure{Kind: "recorder-did-not-terminate", Detail: fmt.Sprint(x.Blocked)}
							}
							harness.Outcome("record file complete")
							return nil
						},
					})
				}
			}
		}
	}
	return scs
}

// realBinary: the shipped program from main() on, on real pipes and files.
func realBinary(r *harness.EvRun) {
	cfg := `{"log_events": %v, "message_log_directory": "%%DIR%%/rtcm", "event_log_directory": "%%DIR%%/events"}`
	check := func(input []byte) func(stdout []byte, dir string, exit error) (string, string) {
		return func(stdout []byte, dir string, exit error) (string, string) {
			if !bytes.Equal(stdout, input) {
				return "stdout-differs-from-stdin", fmt.Sprintf("%d bytes written to standard output, %d bytes read from standard input (exit: %v)", len(stdout), len(input), exit)
			}
			var rec []byte
			ents, _ := os.ReadDir(dir + "/rtcm")
			for _, e := range ents {
				if strings.HasPrefix(e.Name(), "rtcmlogger.") && strings.HasSuffix(e.Name(), ".rtcm") {
					b, _ := os.ReadFile(dir + "/rtcm/" + e.Name())
					rec = append(rec, b...)
				}
			}
			if !bytes.Equal(rec, input) {
				return "days-record-file-in-the-configured-directory-differs-from-stdin", fmt.Sprintf("record holds %d bytes, input %d bytes", len(rec), len(input))
			}
			return "", ""
		}
	}
	var cases []harness.RealCase
	for _, n := range []int{0, 5, 8097, 500 * 8096} {
		for _, le := range []bool{false, true} {
			for _, tz := range []string{"UTC", "Pacific/Auckland", "Pacific/Pago_Pago"} {
				if n > 10000 && tz != "UTC" && le {
					continue
				}
				input := pattern(n)
				c := harness.RealCase{Name: fmt.Sprintf("rtcmlogger -c config input=%dB log_events=%v TZ=%s", n, le, tz),
					Args: []string{"-c", "%DIR%/config.json"}, Files: map[string]string{"config.json": fmt.Sprintf(cfg, le)},
					Stdin: input, Env: []string{"TZ=" + tz}, Check: check(input)}
				if n > 10000 {
					// block by block, each one seen on the output before the next is sent:
					// collections and finalizers get their chance while data still flows
					c.Block, c.Progress = 8096, func(fed int) int { return fed }
				}
				cases = append(cases, c)
			}
		}
	}
	harness.RealBinary(r, "C16", "MC_REAL_BIN_rtcmlogger", cases)
}
