//go:build go1.21

package main

// Engine-A harness for apps/displayrtcm3 (added by overlay at check time).

import (
	"bytes"
	"fmt"
	"log/slog"
	"os"
	"strings"
	"testing"
	"time"

	"verif/mc/harness"
	"verif/mc/hsink"
	"verif/mc/mcrt"
	"verif/props"
	"verif/ref"

	"github.com/goblimey/go-ntrip/jsonconfig"
	rtcmh "github.com/goblimey/go-ntrip/rtcm/handler"
	"github.com/goblimey/go-ntrip/rtcm/utils"
)

var t0 = time.Date(2023, 5, 10, 12, 0, 0, 0, time.UTC)

func TestMain(m *testing.M) {
	switch os.Getenv("MC_PROP") {
	case "C11":
		harness.Run(&harness.Prop{ID: "C11", Scenarios: scenariosC11, QuickBudget: 60 * time.Second, ThoroughBudget: 10 * time.Minute})
	case "C17":
		harness.Run(&harness.Prop{ID: "C17",
			Pre: func(r *harness.EvRun) {
				props.Registry["C17"](r)
				r.Rule += c17AppRule
				r.Assumptions = append(r.Assumptions, "application level: 'yyyy-mm-dd' means midnight UTC on that day, as the program's documentation says; a constellation is judged only when that instant lies in the constellation week of the data")
			},
			Scenarios: scenariosC17, Post: realBinaryC17, QuickBudget: 30 * time.Second, ThoroughBudget: 60 * time.Second})
	default:
		os.Exit(m.Run())
	}
}

const c17AppRule = "; plus, at application level (displayrtcm3 in-package harness, default schedule): the start time is produced by the program's own getTime from its command-line argument and handed to the shipped HandleMessages with a stream of four header-only MSM7 frames (GPS, GLONASS, Galileo, BeiDou): host time zone {UTC, +1, +5:30, +9, +13, -5, -11} x host clock {in the week of the data; for zones UTC and +13 also 3 years before and 3 years after it} x observation instant {Sunday 00:01, Wednesday 12:00, Saturday 20:00 UTC} x argument {each of the 7 dates of the week as yyyy-mm-dd; the same instants and two others in RFC3339 form with Z, +05:00 and -08:00 offsets}; every 'Time' line of a constellation whose precondition holds must show the true observation time"

// scenariosC17: "displaying a recorded file with any date of that week" through
// the program's own argument parsing, on hosts in different time zones.
func scenariosC17(tier string) []*mcrt.Scenario {
	var scs []*mcrt.Scenario
	zones := []struct {
		name string
		off  int
	}{{"UTC", 0}, {"UTC+1", 3600}, {"UTC+5:30", 5*3600 + 1800}, {"UTC+9", 9 * 3600}, {"UTC+13", 13 * 3600}, {"UTC-5", -5 * 3600}, {"UTC-11", -11 * 3600}}
	sunday := time.Date(2023, 5, 7, 0, 0, 0, 0, time.UTC)
	obs := []time.Time{sunday.Add(time.Minute), sunday.Add(3*24*time.Hour + 12*time.Hour), sunday.Add(6*24*time.Hour + 20*time.Hour)}
	type argT struct {
		text string
		at   time.Time // the instant the documentation gives it
	}
	var args []argT
	for d := 0; d < 7; d++ {
		day := sunday.AddDate(0, 0, d)
		args = append(args, argT{day.Format("2006-01-02"), day})
	}
	for _, t := range []time.Time{sunday, sunday.Add(3*24*time.Hour + 15*time.Hour), sunday.Add(6*24*time.Hour + 20*time.Hour + 30*time.Minute)} {
		for _, z := range []*time.Location{time.UTC, time.FixedZone("", 5*3600), time.FixedZone("", -8*3600)} {
			args = append(args, argT{t.In(z).Format(time.RFC3339), t})
		}
	}
	cons := []ref.Constellation{ref.GPS, ref.Glonass, ref.Galileo, ref.Beidou}
	// the host's clock: in the week of the data, years before it (a board without a
	// battery-backed clock), years after it (a recording displayed later)
	clocks := []time.Time{time.Date(2023, 5, 10, 12, 0, 0, 0, time.UTC), time.Date(2020, 1, 1, 0, 0, 0, 0, time.UTC), time.Date(2026, 10, 1, 8, 0, 0, 0, time.UTC)}
	for ci, clock := range clocks {
		for _, z := range zones {
			for _, u := range obs {
				for _, a := range args {
					if ci > 0 && (z.off != 0 && z.off != 13*3600) {
						continue
					}
					z, u, a, clock := z, u, a, clock
					var stream []byte
					for _, c := range cons {
						stream = append(stream, ref.HeaderOnlyMSM(c.MSMType(true), c.Timestamp(u))...)
					}
					scs = append(scs, &mcrt.Scenario{
						Name:        fmt.Sprintf("displayrtcm3 date-argument zone=%s arg=%s observation=%s host-clock=%s", z.name, a.text, u.Format("Mon15:04"), clock.Format("2006-01-02")),
						DefaultOnly: true, Horizon: 200000,
						Body: func(x *mcrt.X) {
							o := &obsT{out: &hsink.Sink{Name: "stdout"}}
							x.Data = o
							mcrt.SetClock(clock)
							saved := time.Local
							time.Local = time.FixedZone(z.name, z.off)
							defer func() { time.Local = saved }()
							start, err := getTime(a.text)
							if err != nil {
								o.atReturn = []byte("getTime: " + err.Error())
								return
							}
							HandleMessages(start, &hsink.ChunkReader{Data: stream, Reset: true, Sizes: []int{0}}, o.out, &jsonconfig.Config{})
							o.atReturn = append([]byte{}, o.out.Buf...)
							o.returned = true
						},
						Check: func(x *mcrt.X) *mcrt.Failure {
							o := x.Data.(*obsT)
							if len(x.Panics) > 0 {
								p := x.Panics[0]
								return &mcrt.Failure{Kind: "panic in " + p.Thread + ": " + first(p.Value) + " @" + p.Site, Detail: p.Stack}
							}
							if !o.returned {
								return &mcrt.Failure{Kind: "date-argument-not-accepted-or-no-return", Detail: string(o.atReturn) + " end=" + x.End}
							}
							var times []string
							for _, l := range strings.Split(string(o.atReturn), "\n") {
								if strings.HasPrefix(l, "Time ") {
									times = append(times, strings.TrimPrefix(l, "Time "))
								}
							}
							if len(times) != len(cons) {
								return &mcrt.Failure{Kind: "time-lines-missing", Detail: fmt.Sprintf("%d 'Time' lines for %d MSM messages", len(times), len(cons))}
							}
							judged := 0
							for i, c := range cons {
								if !c.WeekStart(a.at).Equal(c.WeekStart(u)) {
									continue // the argument is not in this constellation's week of the data
								}
								judged++
								want := u.Format(utils.DateLayout)
								if times[i] != want {
									return &mcrt.Failure{Kind: "reported-time-wrong-for-a-date-of-the-same-week constellation=" + ref.ConstNames[c],
										Detail: fmt.Sprintf("argument %q on a host in zone %s: reported %q, true %q", a.text, z.name, times[i], want)}
								}
							}
							harness.Outcome(fmt.Sprintf("date argument accepted, %d constellations judged", judged))
							return nil
						},
					})
				}
			}
		}
	}
	return scs
}

const heading = "RTCM data\n\nNote: times are in UTC.  RINEX format uses GPS time, which is currently (Jan 2021)\n18 seconds ahead of UTC\n\n"

func expected(stream []byte) (text string, fault string) { return expectedAt(t0, stream) }

func expectedAt(start time.Time, stream []byte) (text string, fault string) {
	// segmentation by the independent reference (ref.Segment; C03 ties the
	// implementation's framing to it), each segment displayed by the library
	h := rtcmh.New(start, slog.LevelDebug)
	defer func() {
		if p := recover(); p != nil {
			fault = fmt.Sprint("display of the sequential framing panicked: ", p)
		}
	}()
	text = heading
	for _, sg := range ref.Segment(stream) {
		var m *rtcmh.Message
		if sg.Type >= 0 {
			m, _ = h.GetMessage(sg.Raw)
		} else {
			m = rtcmh.NewNonRTCM(sg.Raw)
		}
		text += m.String() + "\n"
	}
	return text, ""
}

type obsT struct {
	out      *hsink.Sink
	returned bool
	atReturn []byte
}

func first(s string) string {
	if i := strings.IndexByte(s, '\n'); i >= 0 {
		s = s[:i]
	}
	if len(s) > 90 {
		s = s[:90]
	}
	return s
}

func scenariosC11(tier string) []*mcrt.Scenario {
	f := ref.Frame([]byte{0x41})
	g := ref.TypedFrame(1005, 3, nil)
	streams := map[string][]byte{
		"frame":            f,
		"frame+frame":      append(append([]byte{}, f...), g...),
		"frame+junk+frame": append(append(append([]byte{}, f...), 0x0A), g...),
		"1077/8":           ref.TypedFrame(1077, 8, nil),
		"junk":             []byte("$G\n"),
		// inputs cut at an arbitrary byte: one stray byte, and 1, 3 and 4 bytes of a frame
		"frame+1stray":   append(append([]byte{}, f...), 0x0A),
		"frame+D3":       append(append([]byte{}, f...), 0xD3),
		"frame+3ofFrame": append(append([]byte{}, f...), g[:3]...),
		"frame+4ofFrame": append(append([]byte{}, f...), g[:4]...),
	}
	var scs []*mcrt.Scenario
	for _, sn := range []string{"frame", "frame+frame", "frame+junk+frame", "1077/8", "junk", "frame+1stray", "frame+D3", "frame+3ofFrame", "frame+4ofFrame"} {
		for _, split := range []bool{false, true} {
			stream, split := streams[sn], split
			want, fault := expected(stream)
			scs = append(scs, &mcrt.Scenario{
				Name:  fmt.Sprintf("displayrtcm3 stream=%s splitwrite=%v", sn, split),
				Bound: 2, Horizon: 20000, Prune: true, Full: true,
				Body: func(x *mcrt.X) {
					obs := &obsT{out: &hsink.Sink{Name: "stdout", Split: split}}
					x.Data = obs
					src := &hsink.ChunkReader{Data: stream, Reset: true, EOFWithData: true}
					HandleMessages(t0, src, obs.out, &jsonconfig.Config{})
					obs.atReturn = append([]byte{}, obs.out.Buf...)
					mcrt.Note(uint64(len(obs.atReturn)))
					obs.returned = true
				},
				Check: func(x *mcrt.X) *mcrt.Failure {
					obs := x.Data.(*obsT)
					if fault != "" {
						return &mcrt.Failure{Kind: "sequential-framing-failed", Detail: fault}
					}
					if len(x.Panics) > 0 {
						p := x.Panics[0]
						return &mcrt.Failure{Kind: "panic in " + p.Thread + ": " + first(p.Value) + " @" + p.Site, Detail: p.Stack}
					}
					if !obs.returned {
						return &mcrt.Failure{Kind: "HandleMessages-did-not-return end=" + x.End, Detail: fmt.Sprint(x.Blocked)}
					}
					if x.End != mcrt.EndAllDone {
						return &mcrt.Failure{Kind: "goroutine-left-blocked", Detail: fmt.Sprint(x.Blocked)}
					}
					if !bytes.Equal(obs.atReturn, []byte(want)) {
						return &mcrt.Failure{Kind: "app=displayrtcm3 returned-before-writer-finished",
							Detail: fmt.Sprintf("%d of %d output bytes written when HandleMessages returned", len(obs.atReturn), len(want))}
					}
					if !bytes.Equal(obs.out.Buf, []byte(want)) {
						return &mcrt.Failure{Kind: "app=displayrtcm3 output-differs-at-quiescence"}
					}
					harness.Outcome("displayrtcm3 complete-at-return")
					return nil
				},
			})
		}
	}
	return scs
}

// realBinaryC17: the shipped displayrtcm3 from main() on: "displayrtcm3 file
// date" for every date of the week of a recorded file, on hosts in three time
// zones.  The whole output must be what the library displays for that start
// time (nothing lost at exit), and every 'Time' line must be the true time.
func realBinaryC17(r *harness.EvRun) {
	sunday := time.Date(2023, 5, 7, 0, 0, 0, 0, time.UTC)
	u := sunday.Add(3*24*time.Hour + 12*time.Hour)
	cons := []ref.Constellation{ref.GPS, ref.Glonass, ref.Galileo, ref.Beidou}
	var stream []byte
	stream = append(stream, ref.TypedFrame(1005, 19, nil)...)
	for _, c := range cons {
		stream = append(stream, ref.HeaderOnlyMSM(c.MSMType(true), c.Timestamp(u))...)
	}
	stream = append(stream, []byte("$GPGGA,tail\r\n")...)
	var cases []harness.RealCase
	for _, tz := range []string{"UTC", "Asia/Tokyo", "America/Los_Angeles"} {
		for d := 0; d < 7; d++ {
			day := sunday.AddDate(0, 0, d)
			arg := day.Format("2006-01-02")
			want, _ := expectedAt(day, stream)
			cases = append(cases, harness.RealCase{
				Name: fmt.Sprintf("displayrtcm3 recorded.rtcm %s TZ=%s", arg, tz),
				Args: []string{"%DIR%/recorded.rtcm", arg}, Files: map[string]string{"recorded.rtcm": string(stream)}, Env: []string{"TZ=" + tz},
				Check: func(stdout []byte, dir string, exit error) (string, string) {
					var times []string
					for _, l := range strings.Split(string(stdout), "\n") {
						if strings.HasPrefix(l, "Time ") {
							times = append(times, strings.TrimPrefix(l, "Time "))
						}
					}
					if len(times) == len(cons) {
						for i, c := range cons {
							if c.WeekStart(day).Equal(c.WeekStart(u)) && times[i] != u.Format(utils.DateLayout) {
								return "reported-time-wrong-for-a-date-of-the-same-week constellation=" + ref.ConstNames[c], fmt.Sprintf("reported %q, true %q", times[i], u.Format(utils.DateLayout))
							}
						}
					}
					if string(stdout) != want {
						return "output-of-the-program-differs-from-the-display-of-its-messages", fmt.Sprintf("%d bytes written, %d expected (exit: %v)", len(stdout), len(want), exit)
					}
					return "", ""
				}})
		}
	}
	harness.RealBinary(r, "C17", "MC_REAL_BIN_displayrtcm3", cases)
}
