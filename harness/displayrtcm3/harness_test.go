//go:build go1.21

package main

// Engine-A harness for apps/displayrtcm3 (added by overlay at check time).

import (
	"bytes"
	"fmt"
	"log/slog"
	"os"
	"strings"
	"testing"
	"time"

	"verif/mc/harness"
	"verif/mc/hsink"
	"verif/mc/mcrt"
	"verif/ref"

	"github.com/goblimey/go-ntrip/jsonconfig"
	rtcmh "github.com/goblimey/go-ntrip/rtcm/handler"
	"github.com/goblimey/go-ntrip/rtcm/pushback"
)

var t0 = time.Date(2023, 5, 10, 12, 0, 0, 0, time.UTC)

func TestMain(m *testing.M) {
	switch os.Getenv("MC_PROP") {
	case "C11":
		harness.Run(&harness.Prop{ID: "C11", Scenarios: scenariosC11, QuickBudget: 60 * time.Second, ThoroughBudget: 10 * time.Minute})
	default:
		os.Exit(m.Run())
	}
}

const heading = "RTCM data\n\nNote: times are in UTC.  RINEX format uses GPS time, which is currently (Jan 2021)\n18 seconds ahead of UTC\n\n"

func expected(stream []byte) (text string, fault string) {
	ch := make(chan byte, len(stream)+1)
	for _, b := range stream {
		ch <- b
	}
	close(ch)
	h := rtcmh.New(t0, slog.LevelDebug)
	pb := pushback.New(ch)
	defer func() {
		if p := recover(); p != nil {
			fault = fmt.Sprint("sequential framing panicked: ", p)
		}
	}()
	text = heading
	for i := 0; i <= len(stream)+2; i++ {
		m, err := h.FetchNextMessageFrame(pb)
		if err != nil && err.Error() == "done" {
			return
		}
		text += m.String() + "\n"
	}
	return text, "no progress"
}

type obsT struct {
	out      *hsink.Sink
	returned bool
	atReturn []byte
}

func first(s string) string {
	if i := strings.IndexByte(s, '\n'); i >= 0 {
		s = s[:i]
	}
	if len(s) > 90 {
		s = s[:90]
	}
	return s
}

func scenariosC11(tier string) []*mcrt.Scenario {
	f := ref.Frame([]byte{0x41})
	g := ref.TypedFrame(1005, 3, nil)
	streams := map[string][]byte{
		"frame":            f,
		"frame+frame":      append(append([]byte{}, f...), g...),
		"frame+junk+frame": append(append(append([]byte{}, f...), 0x0A), g...),
		"1077/8":           ref.TypedFrame(1077, 8, nil),
		"junk":             []byte("$G\n"),
	}
	var scs []*mcrt.Scenario
	for _, sn := range []string{"frame", "frame+frame", "frame+junk+frame", "1077/8", "junk"} {
		for _, split := range []bool{false, true} {
			stream, split := streams[sn], split
			want, fault := expected(stream)
			scs = append(scs, &mcrt.Scenario{
				Name:  fmt.Sprintf("displayrtcm3 stream=%s splitwrite=%v", sn, split),
				Bound: 2, Horizon: 20000, Prune: true, Full: true,
				Body: func(x *mcrt.X) {
					obs := &obsT{out: &hsink.Sink{Name: "stdout", Split: split}}
					x.Data = obs
					src := &hsink.ChunkReader{Data: stream, Reset: true, EOFWithData: true}
					HandleMessages(t0, src, obs.out, &jsonconfig.Config{})
					obs.atReturn = append([]byte{}, obs.out.Buf...)
					mcrt.Note(uint64(len(obs.atReturn)))
					obs.returned = true
				},
				Check: func(x *mcrt.X) *mcrt.Failure {
					obs := x.Data.(*obsT)
					if fault != "" {
						return &mcrt.Failure{Kind: "sequential-framing-failed", Detail: fault}
					}
					if len(x.Panics) > 0 {
						p := x.Panics[0]
						return &mcrt.Failure{Kind: "panic in " + p.Thread + ": " + first(p.Value) + " @" + p.Site, Detail: p.Stack}
					}
					if !obs.returned {
						return &mcrt.Failure{Kind: "HandleMessages-did-not-return end=" + x.End, Detail: fmt.Sprint(x.Blocked)}
					}
					if x.End != mcrt.EndAllDone {
						return &mcrt.Failure{Kind: "goroutine-left-blocked", Detail: fmt.Sprint(x.Blocked)}
					}
					if !bytes.Equal(obs.atReturn, []byte(want)) {
						return &mcrt.Failure{Kind: "app=displayrtcm3 returned-before-writer-finished",
							Detail: fmt.Sprintf("%d of %d output bytes written when HandleMessages returned", len(obs.atReturn), len(want))}
					}
					if !bytes.Equal(obs.out.Buf, []byte(want)) {
						return &mcrt.Failure{Kind: "app=displayrtcm3 output-differs-at-quiescence"}
					}
					harness.Outcome("displayrtcm3 complete-at-return")
					return nil
				},
			})
		}
	}
	return scs
}
