#!/bin/bash
# Offline setup: warm the Go build cache for the checkers (plain and instrumented).
set -e
cd "$(dirname "$0")"
export GOFLAGS=-mod=mod GOPROXY=off GOSUMDB=off GOTOOLCHAIN=local
S=$(mktemp -d /tmp/vsetup.XXXXXX); trap 'rm -rf "$S"' EXIT
go build -o "$S/vcheck" ./cmd/vcheck
go build -o "$S/instr" ./cmd/instr
"$S/instr" -repo /repo -out "$S/ov" -pkgs rtcm/handler,rtcm/pushback,file_handler,apps/appcore,apps/proxy/circular_queue -time file_handler -yield apps/proxy/circular_queue 2>/dev/null
go build -overlay "$S/ov/overlay.json" -o "$S/mclib" ./cmd/mclib
go test -count=1 ./mc/mcrt/ > "$S/mcrt.log" 2>&1 || { cat "$S/mcrt.log"; echo "scheduler self-tests failed"; exit 1; }
echo setup ok
