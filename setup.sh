#!/bin/bash
# Offline setup: warm the Go build cache for the checkers (plain and instrumented)
# and run the scheduler's self-tests and conformance suite.
set -e
cd "$(dirname "$0")"
export GOFLAGS=-mod=mod GOPROXY=off GOSUMDB=off GOTOOLCHAIN=local
S=$(mktemp -d /tmp/vsetup.XXXXXX); trap 'rm -rf "$S"' EXIT
go build -o "$S/vcheck" ./cmd/vcheck
GOARCH=386 go build -o "$S/vcheck386" ./cmd/vcheck   # the 32-bit second pass of the engine-C checks
go build -o "$S/instr" ./cmd/instr
"$S/instr" -repo /repo -out "$S/ov" -pkgs rtcm/handler,rtcm/pushback,file_handler,apps/appcore,apps/proxy/circular_queue,jsonconfig -time file_handler,jsonconfig -yield apps/proxy/circular_queue 2>/dev/null
go build -overlay "$S/ov/overlay.json" -o "$S/mclib" ./cmd/mclib
"$S/instr" -repo /repo -out "$S/ov2" -pkgs rtcm/handler,rtcm/pushback,file_handler,apps/appcore,jsonconfig,apps/rtcmfilter,apps/displayrtcm3,apps/rtcmlogger,apps/proxy,apps/proxy/reportfeed,apps/proxy/circular_queue \
   -time file_handler,apps/proxy,apps/proxy/reportfeed -dailysink apps/rtcmfilter,apps/rtcmlogger -stdio apps/rtcmlogger \
   -add /repo/apps/rtcmfilter/verif_harness_test.go=$PWD/harness/rtcmfilter/harness_test.go \
   -add /repo/apps/displayrtcm3/verif_harness_test.go=$PWD/harness/displayrtcm3/harness_test.go \
   -add /repo/apps/rtcmlogger/verif_harness_test.go=$PWD/harness/rtcmlogger/harness_test.go \
   -add /repo/apps/proxy/verif_harness_test.go=$PWD/harness/proxy/harness_test.go 2>/dev/null
for a in rtcmfilter displayrtcm3 rtcmlogger proxy; do
  go test -c -vet=off -overlay "$S/ov2/overlay.json" -o "$S/$a.test" github.com/goblimey/go-ntrip/apps/$a
  go build -o "$S/$a.real" github.com/goblimey/go-ntrip/apps/$a   # the shipped binary, for the end-to-end cases
done
go build -race -o "$S/auxrace" ./cmd/auxrace
go test -count=1 ./mc/mcrt/ > "$S/mcrt.log" 2>&1 || { cat "$S/mcrt.log"; echo "scheduler self-tests failed"; exit 1; }
echo setup ok
