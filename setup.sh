#!/bin/bash
# Offline setup: warm the Go build cache for the checkers.
set -e
cd "$(dirname "$0")"
export GOFLAGS=-mod=mod GOPROXY=off GOSUMDB=off GOTOOLCHAIN=local
go build -o /dev/null ./cmd/vcheck
echo setup ok
