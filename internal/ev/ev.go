// Package ev is the reporting side of every check: evidence files, replay
// artefacts, the VIOLATION / KNOWN-FINDING protocol and the known-findings file.
package ev

import (
	"crypto/sha256"
	"encoding/hex"
	"encoding/json"
	"fmt"
	"os"
	"path/filepath"
	"runtime"
	"sort"
	"strconv"
	"strings"
	"sync"
	"time"
)

// Root is the /verif directory (overridable for tests of the machinery).
func Root() string {
	if r := os.Getenv("VERIF_ROOT"); r != "" {
		return r
	}
	return "/verif"
}

// Finding is one entry of KNOWN_FINDINGS.json.
type Finding struct {
	Status      string `json:"status"` // "known" or "fixed"
	Property    string `json:"property"`
	Fingerprint string `json:"fingerprint,omitempty"`
	Commit      string `json:"commit,omitempty"`
	What        string `json:"what"`
}

// Violation is one failing case.
type Violation struct {
	Fingerprint string      `json:"fingerprint"`
	What        string      `json:"what"`
	Case        interface{} `json:"case"`
	Expected    interface{} `json:"expected,omitempty"`
	Actual      interface{} `json:"actual,omitempty"`
	ReplayKind  string      `json:"replay_kind,omitempty"`
}

// Run collects what one check run covered.
type Run struct {
	Property string
	Tier     string
	Seed     int64
	start    time.Time

	mu          sync.Mutex
	Evaluations int64
	States      int64
	Transitions int64
	Validated   int64
	distinct    map[string]struct{}
	DistinctN   int64 // used when distinct cases are counted by the caller
	outcomes    map[string]int64
	Rule        string
	Samples     []interface{}
	Exhaustive  bool
	Extra       map[string]interface{}
	Assumptions []string
	viol        map[string]*Violation // by fingerprint, first (smallest) witness
	violCount   map[string]int64
	Caps        []string
}

// NewRun starts a run; tier and seed come from the command line / environment.
// HostZone is the time zone every checker process runs in (time.Local).  The
// repository's own tests run wherever the machine is - in this image UTC - so
// the checks take a zone that is not UTC and has daylight-saving changes:
// anything that lets the host's zone leak into results shows up.
// VERIF_HOST_ZONE overrides it ("UTC" gives the image's own zone).
var HostZone = "America/New_York"

func init() {
	if z := os.Getenv("VERIF_HOST_ZONE"); z != "" {
		HostZone = z
	}
	if loc, err := time.LoadLocation(HostZone); err == nil {
		time.Local = loc
	} else {
		HostZone = time.Local.String() + " (" + HostZone + " not available)"
	}
}

func NewRun(property, tier string) *Run {
	seed, _ := strconv.ParseInt(os.Getenv("VERIF_SEED"), 10, 64)
	return &Run{Property: property, Tier: tier, Seed: seed, start: time.Now(),
		distinct: map[string]struct{}{}, outcomes: map[string]int64{},
		Extra: map[string]interface{}{}, viol: map[string]*Violation{},
		violCount: map[string]int64{}, Exhaustive: true}
}

// Count adds to the counters.
func (r *Run) Count(evals, states, transitions, validated int64) {
	r.mu.Lock()
	r.Evaluations += evals
	r.States += states
	r.Transitions += transitions
	r.Validated += validated
	r.mu.Unlock()
}

// Distinct records a non-trivial case key (hashed) for distinct_nontrivial.
func (r *Run) Distinct(key string) {
	h := sha256.Sum256([]byte(key))
	k := string(h[:12])
	r.mu.Lock()
	r.distinct[k] = struct{}{}
	r.mu.Unlock()
}

// Outcome tallies an observable outcome class (vacuity guard).
func (r *Run) Outcome(class string) {
	r.mu.Lock()
	r.outcomes[class]++
	r.mu.Unlock()
}

// Sample keeps up to 8 written-out cases.
func (r *Run) Sample(s interface{}) {
	r.mu.Lock()
	if len(r.Samples) < 8 {
		r.Samples = append(r.Samples, s)
	}
	r.mu.Unlock()
}

// Cap records that a bound or deadline cut the exploration short.
func (r *Run) Cap(what string) {
	r.mu.Lock()
	r.Caps = append(r.Caps, what)
	r.Exhaustive = false
	r.mu.Unlock()
}

// Violate records a failing case under its fingerprint.
func (r *Run) Violate(v Violation) {
	r.mu.Lock()
	defer r.mu.Unlock()
	r.violCount[v.Fingerprint]++
	if _, ok := r.viol[v.Fingerprint]; !ok {
		vv := v
		r.viol[v.Fingerprint] = &vv
	}
}

// NViolations is the number of distinct fingerprints seen so far.
func (r *Run) NViolations() int {
	r.mu.Lock()
	defer r.mu.Unlock()
	return len(r.viol)
}

// LoadFindings reads KNOWN_FINDINGS.json.
func LoadFindings() ([]Finding, error) {
	// the findings file always comes from the real /verif, even when evidence
	// and replays are redirected (mutation runs)
	root := "/verif"
	if r := os.Getenv("VERIF_FINDINGS_ROOT"); r != "" {
		root = r
	}
	b, err := os.ReadFile(filepath.Join(root, "KNOWN_FINDINGS.json"))
	if err != nil {
		if os.IsNotExist(err) {
			return nil, nil
		}
		return nil, err
	}
	var f struct {
		Findings []Finding `json:"findings"`
	}
	if err := json.Unmarshal(b, &f); err != nil {
		return nil, err
	}
	return f.Findings, nil
}

// Finish writes the evidence file, replay files, prints the protocol lines
// and returns the exit code (0 held / only known findings, 1 violation).
func (r *Run) Finish() int {
	findings, err := LoadFindings()
	if err != nil {
		fmt.Fprintf(os.Stderr, "cannot read KNOWN_FINDINGS.json: %v\n", err)
		return 2
	}
	known := map[string]Finding{}
	for _, f := range findings {
		if f.Status == "known" && f.Property == r.Property {
			known[f.Fingerprint] = f
		}
	}
	fps := make([]string, 0, len(r.viol))
	for fp := range r.viol {
		fps = append(fps, fp)
	}
	sort.Strings(fps)
	exit := 0
	newViol := 0
	knownSeen := []string{}
	for _, fp := range fps {
		v := r.viol[fp]
		if f, ok := known[fp]; ok {
			fmt.Printf("KNOWN-FINDING: property=%s %s [%s] (%d cases this run)\n", r.Property, f.What, fp, r.violCount[fp])
			knownSeen = append(knownSeen, fp)
			continue
		}
		path := r.writeReplay(v)
		fmt.Printf("VIOLATION property=%s replay=%s\n", r.Property, path)
		fmt.Printf("  fingerprint: %s\n  what: %s (%d cases this run)\n", fp, v.What, r.violCount[fp])
		newViol++
		exit = 1
	}
	for fp, f := range known {
		if _, seen := r.viol[fp]; !seen {
			fmt.Printf("note: listed known finding not reproduced in this run: property=%s [%s] %s\n", r.Property, fp, f.What)
		}
	}
	r.writeEvidence(newViol, knownSeen)
	fmt.Printf("%s %s: evaluations=%d states=%d transitions=%d distinct_nontrivial=%d outcomes=%d exhaustive=%v violations=%d known=%d wall=%.1fs\n",
		r.Property, r.Tier, r.Evaluations, r.States, r.Transitions, r.distinctCount(), len(r.outcomes), r.Exhaustive, newViol, len(knownSeen), time.Since(r.start).Seconds())
	return exit
}

func (r *Run) distinctCount() int64 {
	return r.DistinctN + int64(len(r.distinct))
}

func (r *Run) writeReplay(v *Violation) string {
	h := sha256.Sum256([]byte(v.Fingerprint))
	dir := filepath.Join(Root(), "replays", r.Property)
	os.MkdirAll(dir, 0o755)
	path := filepath.Join(dir, hex.EncodeToString(h[:6])+".json")
	doc := map[string]interface{}{
		"property": r.Property, "fingerprint": v.Fingerprint, "what": v.What,
		"case": v.Case, "expected": v.Expected, "actual": v.Actual,
		"replay_kind": v.ReplayKind, "tier": r.Tier,
		"goarch": runtime.GOARCH, "host_time_zone": HostZone,
	}
	b, _ := json.MarshalIndent(doc, "", " ")
	os.WriteFile(path, b, 0o644)
	return path
}

func (r *Run) writeEvidence(newViol int, knownSeen []string) {
	out := map[string]int64{}
	for k, v := range r.outcomes {
		out[k] = v
	}
	samples := r.Samples
	if len(samples) == 0 {
		samples = []interface{}{"(no sample recorded)"}
	}
	states := r.States
	if states == 0 {
		states = r.distinctCount()
	}
	trans := r.Transitions
	if trans == 0 {
		trans = r.Evaluations
	}
	cov := map[string]interface{}{
		"evaluations":                   r.Evaluations,
		"distinct_nontrivial":           r.distinctCount(),
		"rule":                          r.Rule,
		"samples":                       samples,
		"states":                        states,
		"transitions":                   trans,
		"traces_validated_against_impl": r.Validated,
		"exhaustive":                    r.Exhaustive,
		"distinct_outcomes":             len(r.outcomes),
		"outcome_classes":               out,
		"caps_hit":                      r.Caps,
		"known_findings_reproduced":     knownSeen,
		"host_time_zone":                HostZone,
		"goarch":                        runtime.GOARCH,
	}
	for k, v := range r.Extra {
		cov[k] = v
	}
	if r.Assumptions == nil {
		r.Assumptions = []string{}
	}
	if r.Caps == nil {
		r.Caps = []string{}
	}
	cov["caps_hit"] = r.Caps
	doc := map[string]interface{}{
		"property_id": r.Property, "tier": r.Tier, "seed": r.Seed,
		"level": "model_checking", "coverage": cov,
		"assumptions": r.Assumptions,
		"wall_s":      float64(int(time.Since(r.start).Seconds()*100)) / 100,
		"violations":  newViol,
	}
	b, _ := json.MarshalIndent(doc, "", " ")
	dir := filepath.Join(Root(), "evidence")
	os.MkdirAll(dir, 0o755)
	name := r.Property
	if n := os.Getenv("VERIF_EVIDENCE_NAME"); n != "" {
		name = n // a second pass of the same check (another architecture) keeps its own file
	}
	os.WriteFile(filepath.Join(dir, name+".json"), append(b, '\n'), 0o644)
}

// Hex renders bytes for samples and replay files.
func Hex(b []byte) string {
	if len(b) > 96 {
		return fmt.Sprintf("%s...(%d bytes)", hex.EncodeToString(b[:96]), len(b))
	}
	return hex.EncodeToString(b)
}

// FullHex renders all bytes.
func FullHex(b []byte) string { return hex.EncodeToString(b) }

// Tier normalises the tier argument.
func Tier(s string) string {
	s = strings.ToLower(s)
	if s != "thorough" {
		return "quick"
	}
	return s
}
