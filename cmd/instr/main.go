// instr is engine B of DESIGN.md: it reads go-ntrip packages from the CURRENT
// working tree, rewrites channel operations, go statements, sync, and
// (optionally) time / stdio / dailylogger uses into calls of verif/mc/mcrt,
// and writes the rewritten copies plus a `go build -overlay` JSON file.
// /repo is never modified.
//
//	instr -repo /repo -out DIR -pkgs rtcm/handler,rtcm/pushback \
//	      [-time file_handler] [-yield apps/proxy/circular_queue] \
//	      [-stdio apps/rtcmlogger] [-dailysink apps/rtcmfilter,apps/rtcmlogger] \
//	      [-add /repo/apps/x/h_test.go=/verif/harness/x/h_test.go]
package main

import (
	"encoding/json"
	"flag"
	"fmt"
	"go/ast"
	"go/importer"
	"go/parser"
	"go/token"
	"go/types"
	"io"
	"os"
	"os/exec"
	"path/filepath"
	"sort"
	"strings"
)

type edit struct {
	pos, end int // byte offsets; pos==end is an insertion
	text     string
	seq      int
}

type fileRewriter struct {
	fset     *token.FileSet
	src      []byte
	file     *ast.File
	rel      string
	edits    []edit
	usesMC   bool
	keep     map[string]bool   // package idents whose import must stay used
	keepReal map[ast.Node]bool // os.Stdin/os.Stdout uses that must stay the real file
	opts     opts
	errs     []string
	skip     map[ast.Node]bool
	info     *types.Info // nil when the package could not be type-checked
}

// isChan reports whether the expression's type is a channel (needs type information).
func (r *fileRewriter) isChan(e ast.Expr) bool {
	if r.info == nil {
		return false
	}
	t := r.info.TypeOf(e)
	if t == nil {
		return false
	}
	_, ok := t.Underlying().(*types.Chan)
	return ok
}

type opts struct{ time, yield, stdio, dailysink bool }

func (r *fileRewriter) off(p token.Pos) int { return r.fset.Position(p).Offset }

func (r *fileRewriter) insert(at token.Pos, text string) {
	r.edits = append(r.edits, edit{r.off(at), r.off(at), text, len(r.edits)})
}

func (r *fileRewriter) replace(from, to token.Pos, text string) {
	r.edits = append(r.edits, edit{r.off(from), r.off(to), text, len(r.edits)})
}

func (r *fileRewriter) text(n ast.Node) string { return string(r.src[r.off(n.Pos()):r.off(n.End())]) }

func (r *fileRewriter) posLabel(p token.Pos) string {
	pp := r.fset.Position(p)
	return fmt.Sprintf("%s:%d", r.rel, pp.Line)
}

func isIdent(e ast.Expr, name string) bool {
	id, ok := e.(*ast.Ident)
	return ok && id.Name == name
}

func isPkgSel(e ast.Expr, pkg string, names ...string) (string, bool) {
	s, ok := e.(*ast.SelectorExpr)
	if !ok || !isIdent(s.X, pkg) {
		return "", false
	}
	for _, n := range names {
		if s.Sel.Name == n {
			return n, true
		}
	}
	return "", false
}

// containsRewrite reports whether n contains a construct this tool rewrites.
func containsRewrite(n ast.Node) bool {
	found := false
	ast.Inspect(n, func(c ast.Node) bool {
		switch v := c.(type) {
		case *ast.SendStmt, *ast.GoStmt:
			found = true
		case *ast.UnaryExpr:
			if v.Op == token.ARROW {
				found = true
			}
		case *ast.CallExpr:
			if isIdent(v.Fun, "close") {
				found = true
			}
		}
		return !found
	})
	return found
}

func (r *fileRewriter) rewrite() {
	recv2 := map[*ast.UnaryExpr]bool{}
	ast.Inspect(r.file, func(n ast.Node) bool {
		switch v := n.(type) {
		case *ast.LabeledStmt:
			if _, ok := v.Stmt.(*ast.SelectStmt); ok {
				r.errs = append(r.errs, fmt.Sprintf("unsupported construct: labelled select at %s", r.posLabel(v.Pos())))
			}
		case *ast.SelectStmt:
			r.usesMC = true
			r.rewriteSelect(v)
		case *ast.AssignStmt:
			if len(v.Lhs) == 2 && len(v.Rhs) == 1 {
				if u, ok := v.Rhs[0].(*ast.UnaryExpr); ok && u.Op == token.ARROW {
					recv2[u] = true
				}
			}
		case *ast.ValueSpec:
			if len(v.Names) == 2 && len(v.Values) == 1 {
				if u, ok := v.Values[0].(*ast.UnaryExpr); ok && u.Op == token.ARROW {
					recv2[u] = true
				}
			}
		}
		return true
	})
	ast.Inspect(r.file, func(n ast.Node) bool {
		if n != nil && r.skip[n] {
			return false
		}
		switch v := n.(type) {
		case *ast.SendStmt:
			r.usesMC = true
			r.insert(v.Pos(), "mcrt.Send(")
			r.replace(v.Chan.End(), v.Value.Pos(), ", ")
			r.insert(v.End(), ")")
		case *ast.UnaryExpr:
			if v.Op == token.ARROW {
				r.usesMC = true
				fn := "mcrt.Recv("
				if recv2[v] {
					fn = "mcrt.Recv2("
				}
				r.replace(v.OpPos, v.X.Pos(), fn)
				r.insert(v.End(), ")")
			}
		case *ast.CallExpr:
			if isIdent(v.Fun, "close") && len(v.Args) == 1 {
				r.usesMC = true
				r.replace(v.Fun.Pos(), v.Fun.End(), "mcrt.Close")
			}
			if (isIdent(v.Fun, "len") || isIdent(v.Fun, "cap")) && len(v.Args) == 1 && r.isChan(v.Args[0]) && isIdent(v.Fun, "len") {
				r.usesMC = true
				r.replace(v.Fun.Pos(), v.Fun.End(), "mcrt.Len")
			}
			if r.opts.dailysink {
				if _, ok := isPkgSel(v.Fun, "dailylogger", "New"); ok {
					r.usesMC = true
					r.keep["dailylogger.New"] = true
					r.replace(v.Fun.Pos(), v.Fun.End(), "mcrt.NewDailySink")
				}
			}
		case *ast.SelectorExpr:
			if r.opts.time {
				if name, ok := isPkgSel(v, "time", "Now", "Sleep", "Since", "After", "NewTimer", "NewTicker", "Tick", "AfterFunc", "Timer", "Ticker"); ok {
					r.usesMC = true
					r.keep["time.Now"] = true
					r.replace(v.Pos(), v.End(), "mcrt."+name)
				}
			}
			if r.opts.stdio {
				// os.Stdout.Fd(), .Stat(), .Name() ... are about the descriptor, not the
				// stream: they keep the real file
				if inner, ok := v.X.(*ast.SelectorExpr); ok {
					if _, isStd := isPkgSel(inner, "os", "Stdin", "Stdout"); isStd {
						switch v.Sel.Name {
						case "Write", "Read", "WriteString":
						default:
							r.keepReal[inner] = true
						}
					}
				}
				if name, ok := isPkgSel(v, "os", "Stdin", "Stdout"); ok && !r.keepReal[v] {
					r.usesMC = true
					r.keep["os.Stdin"] = true
					r.replace(v.Pos(), v.End(), "mcrt."+name)
				}
			}
		case *ast.RangeStmt:
			// `for v := range ch` (recognised with type information; without it the
			// scheduler's watchdog reports the stall as a machinery failure)
			if r.isChan(v.X) {
				r.usesMC = true
				ch, ok := r.exprText(v.X, "range expression")
				if !ok {
					return true
				}
				recv := "_, _mc_ok := mcrt.Recv2(" + ch + ")"
				if v.Key != nil {
					if v.Tok == token.DEFINE {
						recv = r.text(v.Key) + ", _mc_ok := mcrt.Recv2(" + ch + "); _ = " + r.text(v.Key)
					} else {
						recv = "var _mc_ok bool; " + r.text(v.Key) + ", _mc_ok = mcrt.Recv2(" + ch + ")"
					}
				}
				r.replace(v.For, v.Body.Lbrace+1, "for { "+recv+"; if !_mc_ok { break }; ")
				if r.opts.yield {
					r.insert(v.Body.Lbrace+1, fmt.Sprintf(" mcrt.Yield(%q); ", r.posLabel(v.Pos())))
				}
				return true
			}
			if r.opts.yield {
				r.usesMC = true
				r.insert(v.Body.Lbrace+1, fmt.Sprintf(" mcrt.Yield(%q); ", r.posLabel(v.Pos())))
			}
		case *ast.GoStmt:
			r.usesMC = true
			r.rewriteGo(v)
		case *ast.FuncDecl:
			if r.opts.yield && v.Body != nil {
				r.usesMC = true
				r.insert(v.Body.Lbrace+1, fmt.Sprintf(" mcrt.Yield(%q); ", r.posLabel(v.Pos())))
			}
		case *ast.ForStmt:
			r.usesMC = true
			if r.opts.yield {
				r.insert(v.Body.Lbrace+1, fmt.Sprintf(" mcrt.Yield(%q); ", r.posLabel(v.Pos())))
			} else {
				// make waiting visible: a loop that goes round without ever reaching a
				// scheduling point is counted, and reported as a livelock at a fixed count
				r.insert(v.Body.Lbrace+1, fmt.Sprintf(" mcrt.Spin(%q); ", r.posLabel(v.Pos())))
			}
		case *ast.ImportSpec:
			if v.Path.Value == `"sync"` {
				alias := "sync "
				if v.Name != nil {
					alias = ""
				}
				r.replace(v.Path.Pos(), v.Path.End(), alias+`"verif/mc/vsync"`)
			}
		}
		return true
	})
}

// exprText returns the source of an expression that must not itself contain a
// construct this tool rewrites; virtual-time substitutions are applied to it.
func (r *fileRewriter) exprText(e ast.Expr, what string) (string, bool) {
	if containsRewrite(e) {
		r.errs = append(r.errs, fmt.Sprintf("unsupported construct: channel operation inside %s at %s", what, r.posLabel(e.Pos())))
		return "", false
	}
	t := r.text(e)
	if r.opts.time {
		for _, f := range []string{"After", "Now", "Since", "Sleep", "NewTimer", "NewTicker", "Tick", "AfterFunc"} {
			if strings.Contains(t, "time."+f+"(") {
				t = strings.ReplaceAll(t, "time."+f+"(", "mcrt."+f+"(")
				r.keep["time.Now"] = true
			}
		}
	}
	return t, true
}

// rewriteSelect turns a select statement into a mcrt.Sel construction followed
// by a switch on the chosen case; the case bodies stay where they are.
func (r *fileRewriter) rewriteSelect(sel *ast.SelectStmt) {
	var pro strings.Builder
	pro.WriteString("{ _mc_sel := mcrt.NewSelect(); ")
	type hdr struct {
		cc   *ast.CommClause
		text string
	}
	var hdrs []hdr
	idx := 0
	for _, st := range sel.Body.List {
		cc := st.(*ast.CommClause)
		if cc.Comm == nil {
			pro.WriteString("_mc_sel.Default(); ")
			hdrs = append(hdrs, hdr{cc, "case -1:"})
			continue
		}
		r.skip[cc.Comm] = true
		name := fmt.Sprintf("_mc_c%d", idx)
		head := fmt.Sprintf("case %d:", idx)
		switch c := cc.Comm.(type) {
		case *ast.SendStmt:
			ch, ok1 := r.exprText(c.Chan, "select case")
			val, ok2 := r.exprText(c.Value, "select case")
			if !ok1 || !ok2 {
				return
			}
			pro.WriteString(fmt.Sprintf("mcrt.SelSend(_mc_sel, %s, %s); ", ch, val))
		case *ast.ExprStmt:
			u, ok := c.X.(*ast.UnaryExpr)
			if !ok || u.Op != token.ARROW {
				r.errs = append(r.errs, fmt.Sprintf("unsupported construct: select case at %s", r.posLabel(cc.Pos())))
				return
			}
			ch, ok1 := r.exprText(u.X, "select case")
			if !ok1 {
				return
			}
			pro.WriteString(fmt.Sprintf("%s := mcrt.SelRecv(_mc_sel, %s); _ = %s; ", name, ch, name))
		case *ast.AssignStmt:
			u, ok := c.Rhs[0].(*ast.UnaryExpr)
			if len(c.Rhs) != 1 || !ok || u.Op != token.ARROW {
				r.errs = append(r.errs, fmt.Sprintf("unsupported construct: select case at %s", r.posLabel(cc.Pos())))
				return
			}
			ch, ok1 := r.exprText(u.X, "select case")
			if !ok1 {
				return
			}
			pro.WriteString(fmt.Sprintf("%s := mcrt.SelRecv(_mc_sel, %s); ", name, ch))
			var lhs []string
			for _, l := range c.Lhs {
				lhs = append(lhs, r.text(l))
			}
			rhs := name + ".Val"
			if len(lhs) == 2 {
				rhs += ", " + name + ".Ok"
			}
			head += " " + strings.Join(lhs, ", ") + " " + c.Tok.String() + " " + rhs + "; "
			if c.Tok == token.DEFINE {
				for _, l := range lhs {
					if l != "_" {
						head += "_ = " + l + "; "
					}
				}
			}
		default:
			r.errs = append(r.errs, fmt.Sprintf("unsupported construct: select case at %s", r.posLabel(cc.Pos())))
			return
		}
		hdrs = append(hdrs, hdr{cc, head})
		idx++
	}
	pro.WriteString("switch _mc_sel.Do() {")
	r.replace(sel.Select, sel.Body.Lbrace+1, pro.String())
	for i, h := range hdrs {
		text := h.text
		if i == len(hdrs)-1 {
			// the last clause becomes the switch's default so that a select that
			// ends a function is still a terminating statement
			text = "default:" + text[strings.Index(text, ":")+1:]
		}
		r.replace(h.cc.Case, h.cc.Colon+1, text)
	}
	r.replace(sel.Body.Rbrace, sel.Body.Rbrace+1, "} }")
}

func (r *fileRewriter) rewriteGo(g *ast.GoStmt) {
	label := r.posLabel(g.Pos())
	call := g.Call
	if _, isLit := call.Fun.(*ast.FuncLit); isLit {
		if len(call.Args) != 0 {
			r.errs = append(r.errs, fmt.Sprintf("unsupported construct: go func literal with arguments at %s", label))
			return
		}
		// go func(){...}()  ->  mcrt.Go("pos", func(){...})
		r.replace(g.Go, call.Fun.Pos(), fmt.Sprintf("mcrt.Go(%q, ", label))
		r.replace(call.Lparen, call.Rparen+1, ")")
		return
	}
	for _, a := range call.Args {
		if containsRewrite(a) {
			r.errs = append(r.errs, fmt.Sprintf("unsupported construct: channel operation inside go statement arguments at %s", label))
			return
		}
	}
	if containsRewrite(call.Fun) {
		r.errs = append(r.errs, fmt.Sprintf("unsupported construct: channel operation inside go statement callee at %s", label))
		return
	}
	var b strings.Builder
	b.WriteString("{ _mc_f := " + r.text(call.Fun) + "; ")
	var args []string
	for i, a := range call.Args {
		inline := false
		switch v := a.(type) {
		case *ast.BasicLit:
			inline = true
		case *ast.Ident:
			inline = v.Name == "nil" || v.Name == "true" || v.Name == "false"
		}
		if inline {
			args = append(args, r.text(a))
			continue
		}
		name := fmt.Sprintf("_mc_a%d", i)
		b.WriteString(name + " := " + r.text(a) + "; ")
		args = append(args, name)
	}
	ell := ""
	if call.Ellipsis.IsValid() {
		ell = "..."
	}
	b.WriteString(fmt.Sprintf("mcrt.Go(%q, func() { _mc_f(%s%s) }) }", label, strings.Join(args, ", "), ell))
	r.replace(g.Pos(), g.End(), b.String())
}

func (r *fileRewriter) output() []byte {
	// apply edits back to front; insertions at the same offset keep creation order
	sort.SliceStable(r.edits, func(i, j int) bool {
		if r.edits[i].pos != r.edits[j].pos {
			return r.edits[i].pos > r.edits[j].pos
		}
		// same position: closing parentheses (inserted at an End) must come before
		// openers of a following node; later-created edits are applied first so
		// that earlier-created ones end up leftmost
		return r.edits[i].seq > r.edits[j].seq
	})
	out := append([]byte{}, r.src...)
	for _, e := range r.edits {
		out = append(out[:e.pos], append([]byte(e.text), out[e.end:]...)...)
	}
	var hdr strings.Builder
	hdr.WriteString("//go:build go1.18\n\n//line " + r.fset.Position(r.file.Pos()).Filename + ":1\n")
	s := string(out)
	// the import of mcrt goes right after the package clause
	pk := r.off(r.file.Name.End())
	// offsets before pk are unchanged by edits (no edit precedes the package name)
	head, tail := s[:pk], s[pk:]
	imp := ""
	if r.usesMC {
		imp = "; import mcrt \"verif/mc/mcrt\""
	}
	foot := "\n"
	var keeps []string
	for k := range r.keep {
		keeps = append(keeps, k)
	}
	sort.Strings(keeps)
	for _, k := range keeps {
		foot += "var _ = " + k + "\n"
	}
	return []byte(hdr.String() + head + imp + tail + foot)
}

func main() {
	repo := flag.String("repo", "/repo", "go-ntrip working tree")
	out := flag.String("out", "", "output directory for rewritten files and overlay.json")
	pkgs := flag.String("pkgs", "", "comma-separated package directories (relative to repo) to instrument")
	timePk := flag.String("time", "", "packages whose time.Now/time.Sleep become virtual")
	yieldPk := flag.String("yield", "", "packages that get yield points at function and loop entry")
	stdioPk := flag.String("stdio", "", "packages whose os.Stdin/os.Stdout are redirected")
	sinkPk := flag.String("dailysink", "", "packages whose dailylogger.New is redirected")
	var adds multi
	flag.Var(&adds, "add", "virtual=real file mapping to add to the overlay (repeatable)")
	flag.Parse()
	if *out == "" || *pkgs == "" {
		fmt.Fprintln(os.Stderr, "instr: -out and -pkgs are required")
		os.Exit(2)
	}
	set := func(s string) map[string]bool {
		m := map[string]bool{}
		for _, p := range strings.Split(s, ",") {
			if p != "" {
				m[p] = true
			}
		}
		return m
	}
	tm, ym, sm, dm := set(*timePk), set(*yieldPk), set(*stdioPk), set(*sinkPk)
	overlay := map[string]string{}
	var report []string
	n := 0
	exports := exportData(*repo, strings.Split(*pkgs, ","))
	for _, pk := range strings.Split(*pkgs, ",") {
		dir := filepath.Join(*repo, pk)
		info := typeCheck(dir, exports)
		ents, err := os.ReadDir(dir)
		if err != nil {
			fmt.Fprintf(os.Stderr, "instr: %v\n", err)
			os.Exit(2)
		}
		for _, e := range ents {
			name := e.Name()
			if e.IsDir() || !strings.HasSuffix(name, ".go") || strings.HasSuffix(name, "_test.go") {
				continue
			}
			path := filepath.Join(dir, name)
			src, err := os.ReadFile(path)
			if err != nil {
				fmt.Fprintf(os.Stderr, "instr: %v\n", err)
				os.Exit(2)
			}
			fset := token.NewFileSet()
			f, err := parser.ParseFile(fset, path, src, parser.ParseComments)
			if err != nil {
				fmt.Fprintf(os.Stderr, "instr: cannot parse %s: %v\n", path, err)
				os.Exit(2)
			}
			if ti, ok := info[path]; ok {
				fset, f = ti.fset, ti.file
			}
			r := &fileRewriter{fset: fset, src: src, file: f, rel: filepath.Join(pk, name), keep: map[string]bool{}, keepReal: map[ast.Node]bool{}, skip: map[ast.Node]bool{}, info: infoOf(info, path),
				opts: opts{time: tm[pk], yield: ym[pk], stdio: sm[pk], dailysink: dm[pk]}}
			r.rewrite()
			if len(r.errs) > 0 {
				for _, e := range r.errs {
					fmt.Fprintln(os.Stderr, "instr:", e)
				}
				os.Exit(2)
			}
			if len(r.edits) == 0 {
				continue
			}
			res := r.output()
			if _, err := parser.ParseFile(token.NewFileSet(), path, res, 0); err != nil {
				fmt.Fprintf(os.Stderr, "instr: rewritten %s does not parse: %v\n", path, err)
				os.WriteFile(filepath.Join(*out, "FAILED_"+name), res, 0o644)
				os.Exit(2)
			}
			dst := filepath.Join(*out, "src", pk, name)
			os.MkdirAll(filepath.Dir(dst), 0o755)
			if err := os.WriteFile(dst, res, 0o644); err != nil {
				fmt.Fprintf(os.Stderr, "instr: %v\n", err)
				os.Exit(2)
			}
			overlay[path] = dst
			report = append(report, fmt.Sprintf("%s (%d edits)", r.rel, len(r.edits)))
			n++
		}
	}
	for _, a := range adds {
		kv := strings.SplitN(a, "=", 2)
		if len(kv) != 2 {
			fmt.Fprintln(os.Stderr, "instr: bad -add", a)
			os.Exit(2)
		}
		overlay[kv[0]] = kv[1]
	}
	b, _ := json.MarshalIndent(map[string]interface{}{"Replace": overlay}, "", " ")
	if err := os.WriteFile(filepath.Join(*out, "overlay.json"), b, 0o644); err != nil {
		fmt.Fprintf(os.Stderr, "instr: %v\n", err)
		os.Exit(2)
	}
	fmt.Fprintf(os.Stderr, "instr: %d files instrumented: %s\n", n, strings.Join(report, ", "))
}

type multi []string

func (m *multi) String() string     { return strings.Join(*m, ",") }
func (m *multi) Set(s string) error { *m = append(*m, s); return nil }

// ---- type information (best effort: without it only syntactic rules apply) ----

type typedFile struct {
	fset *token.FileSet
	file *ast.File
	info *types.Info
}

func infoOf(m map[string]typedFile, path string) *types.Info {
	if t, ok := m[path]; ok {
		return t.info
	}
	return nil
}

// exportData asks the go command for the export data of everything the
// packages import (compiled from the current tree).
func exportData(repo string, pkgs []string) map[string]string {
	args := []string{"list", "-export", "-deps", "-json=ImportPath,Export"}
	for _, p := range pkgs {
		args = append(args, "./"+p)
	}
	cmd := exec.Command("go", args...)
	cmd.Dir = repo
	cmd.Env = append(os.Environ(), "GOFLAGS=", "GOPROXY=off", "GOSUMDB=off")
	out, err := cmd.Output()
	m := map[string]string{}
	if err != nil {
		return m
	}
	dec := json.NewDecoder(strings.NewReader(string(out)))
	for dec.More() {
		var e struct{ ImportPath, Export string }
		if dec.Decode(&e) != nil {
			break
		}
		if e.Export != "" {
			m[e.ImportPath] = e.Export
		}
	}
	return m
}

// typeCheck parses and type-checks the non-test files of one package directory.
func typeCheck(dir string, exports map[string]string) map[string]typedFile {
	res := map[string]typedFile{}
	if len(exports) == 0 {
		return res
	}
	fset := token.NewFileSet()
	ents, _ := os.ReadDir(dir)
	var files []*ast.File
	var paths []string
	for _, e := range ents {
		n := e.Name()
		if e.IsDir() || !strings.HasSuffix(n, ".go") || strings.HasSuffix(n, "_test.go") {
			continue
		}
		p := filepath.Join(dir, n)
		f, err := parser.ParseFile(fset, p, nil, parser.ParseComments)
		if err != nil {
			return res
		}
		files = append(files, f)
		paths = append(paths, p)
	}
	if len(files) == 0 {
		return res
	}
	lookup := func(path string) (io.ReadCloser, error) {
		e, ok := exports[path]
		if !ok {
			return nil, fmt.Errorf("no export data for %s", path)
		}
		return os.Open(e)
	}
	info := &types.Info{Types: map[ast.Expr]types.TypeAndValue{}}
	conf := types.Config{Importer: importer.ForCompiler(fset, "gc", lookup), Error: func(error) {}}
	conf.Check(files[0].Name.Name, fset, files, info) // errors tolerated: partial information is still useful
	for i, f := range files {
		res[paths[i]] = typedFile{fset, f, info}
	}
	return res
}
