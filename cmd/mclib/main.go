// mclib is the engine-A worker/coordinator for the properties whose harness
// drives library packages of go-ntrip (built with the instrumentation overlay).
package main

import (
	"fmt"
	"os"

	"verif/mc/harness"
	"verif/mcprops"
)

func main() {
	id := os.Getenv("MC_PROP")
	p, ok := mcprops.Props[id]
	if !ok {
		fmt.Fprintf(os.Stderr, "mclib: no engine-A property %q\n", id)
		os.Exit(2)
	}
	if f := os.Getenv("MC_FRESH"); f != "" {
		// one operation as the first library call of this process (C15)
		i := 0
		fmt.Sscanf(f, "%d", &i)
		fmt.Println(mcprops.Fresh(id, i))
		return
	}
	harness.Run(p)
}
