// auxrace is the AUXILIARY, NON-DECIDING pass for the "no data race occurs"
// clauses of C09, C15 and C18 (DESIGN.md §3.5): the uninstrumented packages,
// real goroutines, built with -race and run free a fixed number of times.  The
// race detector has no false positives, so a report is a true violation; its
// silence is sampled evidence only and is recorded as such.
//
//	auxrace <C09|C15|C18>      (exit 66 = the race detector fired)
package main

import (
	"bufio"
	"bytes"
	"fmt"
	"log/slog"
	"os"
	"runtime"
	"sync"
	"time"

	"verif/ref"

	"github.com/goblimey/go-ntrip/apps/appcore"
	cq "github.com/goblimey/go-ntrip/apps/proxy/circular_queue"
	"github.com/goblimey/go-ntrip/jsonconfig"
	"github.com/goblimey/go-ntrip/rtcm/handler"
)

var t0 = time.Date(2023, 5, 10, 12, 0, 0, 0, time.UTC)

func frames() [][]byte {
	h := &ref.MSMHeader{Type: 1077, Station: 1, Timestamp: 100000, SatMask: 0xA << 60, SigMask: 0x6 << 28, CellMask: []bool{true, false, true, true}}
	sats := []ref.MSMSat{{Whole: 70, Frac: 100, Rate: -100}, {Whole: 80, Frac: 900, Rate: 55}}
	sigs := []ref.MSMSig{{RangeDelta: 100, PhaseDelta: -200, CNR: 40}, {RangeDelta: -5, PhaseDelta: 6, CNR: 30}, {RangeDelta: 1, PhaseDelta: 2, CNR: 20}}
	h4 := *h
	h4.Type = 1074
	return [][]byte{
		ref.MSMFrame(h, sats, sigs, 0), ref.MSMFrame(&h4, sats, sigs, 1),
		ref.Frame(ref.EncodeStation(&ref.Station{Type: 1005, ID: 2, X: 1, Y: -2, Z: 3}, false, 0)),
		ref.Frame(ref.EncodeStation(&ref.Station{Type: 1006, ID: 2, X: 1, Y: -2, Z: 3, Height: 4}, true, 0)),
		ref.TypedFrame(1230, 8, nil), []byte("$GPGGA,1*47\r\n"),
	}
}

func c18(rounds int) int {
	n := 0
	for r := 0; r < rounds; r++ {
		q := cq.NewCircularQueue(1 + r%4)
		var wg sync.WaitGroup
		for a := 0; a < 3; a++ {
			wg.Add(1)
			go func(a int) {
				defer wg.Done()
				for i := 0; i < 50; i++ {
					q.Add(handler.Message{MessageType: a*1000 + i})
				}
			}(a)
		}
		for rd := 0; rd < 2; rd++ {
			wg.Add(1)
			go func() {
				defer wg.Done()
				for i := 0; i < 50; i++ {
					_ = q.GetMessages()
				}
			}()
		}
		wg.Wait()
		n++
	}
	return n
}

func c15(rounds int) int {
	fs := frames()
	n := 0
	for r := 0; r < rounds; r++ {
		var wg sync.WaitGroup
		// separate handlers
		for g := 0; g < 4; g++ {
			wg.Add(1)
			go func(g int) {
				defer wg.Done()
				h := handler.New(t0, []slog.Level{slog.LevelDebug, slog.LevelInfo}[g%2])
				for _, f := range fs {
					m, _ := h.GetMessage(append([]byte{}, f...))
					handler.Analyse(m)
					_ = m.String()
				}
			}(g)
		}
		// value copies of one delivered message, as appcore hands them out
		h := handler.New(t0, slog.LevelDebug)
		m, _ := h.GetMessage(append([]byte{}, fs[r%len(fs)]...))
		for g := 0; g < 3; g++ {
			cp := *m
			wg.Add(1)
			go func() {
				defer wg.Done()
				_ = cp.String()
				handler.Analyse(&cp)
			}()
		}
		wg.Wait()
		n++
	}
	return n
}

func c09(rounds int) int {
	fs := frames()
	n := 0
	for r := 0; r < rounds; r++ {
		var stream []byte
		stream = append(stream, fs[r%len(fs)]...)
		stream = append(stream, 0x24, 0x0A)
		stream = append(stream, fs[(r+1)%len(fs)]...)
		chans := []chan handler.Message{make(chan handler.Message, r%3), nil, make(chan handler.Message)}
		var wg sync.WaitGroup
		got := make([][]byte, len(chans))
		for i, ch := range chans {
			if ch == nil {
				continue
			}
			wg.Add(1)
			go func(i int, ch chan handler.Message) {
				defer wg.Done()
				for m := range ch {
					got[i] = append(got[i], m.RawData...)
					_ = m.String()
				}
			}(i, ch)
		}
		own := append([]chan handler.Message{}, chans...)
		core := appcore.New(&jsonconfig.Config{}, chans)
		core.HandleMessagesUntilEOF(t0, bufio.NewReader(bytes.NewReader(stream)))
		for _, ch := range own {
			if ch != nil {
				close(ch)
			}
		}
		wg.Wait()
		for i, ch := range own {
			if ch != nil && !bytes.Equal(got[i], stream) {
				fmt.Printf("auxrace C09: consumer %d received %d of %d bytes\n", i, len(got[i]), len(stream))
				os.Exit(1)
			}
		}
		n++
	}
	return n
}

func main() {
	if len(os.Args) < 2 {
		os.Exit(2)
	}
	total := 0
	for _, procs := range []int{1, 2, 16} {
		runtime.GOMAXPROCS(procs)
		switch os.Args[1] {
		case "C09":
			total += c09(40)
		case "C15":
			total += c15(40)
		case "C18":
			total += c18(40)
		default:
			os.Exit(2)
		}
	}
	fmt.Printf("auxrace %s: %d free-running rounds at GOMAXPROCS 1, 2 and 16 under the race detector, no report\n", os.Args[1], total)
}
