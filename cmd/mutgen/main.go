// mutgen lists and applies small syntactic mutations of a Go source file
// (relational and arithmetic operators, integer constants +-1, negated
// conditions, dropped statements).  It is the generator behind
// tools/mutcampaign.sh: every mutant that compiles and still passes the
// repository's own tests is run against the checks.
//
//	mutgen -file F -list             -> one line per mutation: index line kind
//	mutgen -file F -apply N -out G   -> writes the mutated source to G
package main

import (
	"flag"
	"fmt"
	"go/ast"
	"go/parser"
	"go/token"
	"os"
	"strconv"
)

type mut struct {
	line       int
	kind       string
	start, end int
	text       string
}

func main() {
	file := flag.String("file", "", "source file")
	list := flag.Bool("list", false, "list mutations")
	apply := flag.Int("apply", -1, "mutation to apply")
	out := flag.String("out", "", "output file")
	flag.Parse()
	src, err := os.ReadFile(*file)
	if err != nil {
		fmt.Fprintln(os.Stderr, err)
		os.Exit(2)
	}
	fset := token.NewFileSet()
	f, err := parser.ParseFile(fset, *file, src, parser.ParseComments)
	if err != nil {
		fmt.Fprintln(os.Stderr, err)
		os.Exit(2)
	}
	off := func(p token.Pos) int { return fset.Position(p).Offset }
	var muts []mut
	add := func(n ast.Node, kind string, start, end token.Pos, text string) {
		muts = append(muts, mut{fset.Position(n.Pos()).Line, kind, off(start), off(end), text})
	}
	swap := map[token.Token][]string{
		token.LSS: {"<="}, token.LEQ: {"<"}, token.GTR: {">="}, token.GEQ: {">"},
		token.EQL: {"!="}, token.NEQ: {"=="},
		token.ADD: {"-"}, token.SUB: {"+"}, token.LAND: {"||"}, token.LOR: {"&&"},
		token.SHL: {">>"}, token.SHR: {"<<"}, token.AND: {"|"}, token.OR: {"&"},
	}
	ast.Inspect(f, func(n ast.Node) bool {
		switch v := n.(type) {
		case *ast.BinaryExpr:
			for _, r := range swap[v.Op] {
				add(v, "op "+v.Op.String()+"->"+r, v.OpPos, v.OpPos+token.Pos(len(v.Op.String())), r)
			}
		case *ast.BasicLit:
			if v.Kind == token.INT {
				if k, err := strconv.ParseInt(v.Value, 0, 64); err == nil && k < 1<<30 {
					add(v, fmt.Sprintf("const %s->%d", v.Value, k+1), v.Pos(), v.End(), fmt.Sprint(k+1))
					if k > 0 {
						add(v, fmt.Sprintf("const %s->%d", v.Value, k-1), v.Pos(), v.End(), fmt.Sprint(k-1))
					}
				}
			}
		case *ast.IfStmt:
			add(v, "negate-condition", v.Cond.Pos(), v.Cond.End(), "!("+string(src[off(v.Cond.Pos()):off(v.Cond.End())])+")")
		case *ast.ExprStmt:
			if _, ok := v.X.(*ast.CallExpr); ok {
				add(v, "drop-call", v.Pos(), v.End(), "_ = 0")
			}
		case *ast.IncDecStmt:
			add(v, "drop-incdec", v.Pos(), v.End(), "_ = 0")
		case *ast.AssignStmt:
			if v.Tok == token.ADD_ASSIGN {
				add(v, "+= -> -=", v.TokPos, v.TokPos+2, "-=")
			}
		}
		return true
	})
	if *list {
		for i, m := range muts {
			fmt.Printf("%d %d %s\n", i, m.line, m.kind)
		}
		return
	}
	if *apply < 0 || *apply >= len(muts) || *out == "" {
		fmt.Fprintln(os.Stderr, "nothing to do")
		os.Exit(2)
	}
	m := muts[*apply]
	res := append(append(append([]byte{}, src[:m.start]...), []byte(m.text)...), src[m.end:]...)
	if err := os.WriteFile(*out, res, 0o644); err != nil {
		fmt.Fprintln(os.Stderr, err)
		os.Exit(2)
	}
	fmt.Printf("%d %s\n", m.line, m.kind)
}
