// vcheck runs the in-process (engine C) checks.
//
//	vcheck run C14 --tier quick
//	vcheck replay <file>
package main

import (
	"flag"
	"fmt"
	"os"
	"runtime/debug"

	"verif/internal/ev"
	"verif/props"
)

func main() {
	if len(os.Args) < 3 {
		fmt.Fprintln(os.Stderr, "usage: vcheck run <property> [--tier quick|thorough] | vcheck replay <file>")
		os.Exit(2)
	}
	switch os.Args[1] {
	case "run":
		id := os.Args[2]
		fs := flag.NewFlagSet("run", flag.ExitOnError)
		tier := fs.String("tier", os.Getenv("VERIF_TIER"), "quick or thorough")
		fs.Parse(os.Args[3:])
		chk, ok := props.Registry[id]
		if !ok {
			fmt.Fprintf(os.Stderr, "no in-process check for %s\n", id)
			os.Exit(2)
		}
		// The checks hold big enumerations; keep the heap bounded.
		debug.SetMemoryLimit(24 << 30)
		r := ev.NewRun(id, ev.Tier(*tier))
		chk(r)
		os.Exit(r.Finish())
	case "fresh":
		// vcheck fresh <property> <index>: operation #index as the FIRST library call
		// of this process (see props.Fresh); prints its result
		f, ok := props.Fresh[os.Args[2]]
		if !ok || len(os.Args) < 4 {
			os.Exit(2)
		}
		i := 0
		fmt.Sscanf(os.Args[3], "%d", &i)
		fmt.Println(f(i))
	case "replay":
		os.Exit(props.Replay(os.Args[2]))
	default:
		fmt.Fprintln(os.Stderr, "unknown command", os.Args[1])
		os.Exit(2)
	}
}
