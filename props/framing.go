package props

import (
	"bytes"
	"fmt"
	"log/slog"
	"time"

	"verif/ref"

	"github.com/goblimey/go-ntrip/rtcm/handler"
	"github.com/goblimey/go-ntrip/rtcm/pushback"
)

// Shared machinery for the framing properties C01, C02, C03, C12.

var frameStart = time.Date(2023, 5, 10, 12, 0, 0, 0, time.UTC) // a Wednesday

type delivered struct {
	Type int
	Raw  []byte
	Err  string
}

// implStream runs the implementation's sequential framing (FetchNextMessageFrame
// looped over a pre-filled closed channel — exactly the body of HandleMessages
// without the goroutine).  fault is "" or a description of a crash/hang/nil.
func implStream(stream []byte) (out []delivered, fault string) {
	ch := make(chan byte, len(stream)+1)
	for _, b := range stream {
		ch <- b
	}
	close(ch)
	h := handler.New(frameStart, slog.LevelInfo)
	pb := pushback.New(ch)
	cl, site, p := guard(func() {
		for iter := 0; ; iter++ {
			if iter > len(stream)+2 {
				fault = "no-progress: more fetches than input bytes"
				return
			}
			m, err := h.FetchNextMessageFrame(pb)
			if err != nil && err.Error() == "done" {
				if m != nil {
					fault = "message returned together with done"
				}
				return
			}
			if m == nil {
				fault = "nil message without done (HandleMessages would dereference it)"
				return
			}
			d := delivered{Type: m.MessageType, Raw: m.RawData}
			if err != nil {
				d.Err = err.Error()
			}
			out = append(out, d)
		}
	})
	if p {
		fault = "panic " + cl + "@" + site
	}
	return
}

// implHandleMessages runs the real Handler.HandleMessages over one stream on
// the given handler: pre-filled closed input channel, output channel with room
// for everything.  It returns what was delivered; fault is "" or a description.
func implHandleMessages(h *handler.Handler, stream []byte) (out []handler.Message, fault string) {
	in := make(chan byte, len(stream)+1)
	for _, b := range stream {
		in <- b
	}
	close(in)
	ch := make(chan handler.Message, len(stream)+8)
	done := make(chan string, 1)
	go func() {
		cl, site, p := guard(func() { h.HandleMessages(in, ch) })
		if p {
			done <- "panic " + cl + "@" + site
			return
		}
		done <- ""
	}()
	select {
	case fault = <-done:
	case <-time.After(120 * time.Second):
		return nil, "HandleMessages-did-not-return"
	}
	if fault != "" {
		return nil, fault
	}
	for {
		select {
		case m, ok := <-ch:
			if !ok {
				return out, ""
			}
			out = append(out, m)
		default:
			return out, "output-channel-not-closed-when-HandleMessages-returned"
		}
	}
}

func segsEqual(got []delivered, want []ref.Seg) bool {
	if len(got) != len(want) {
		return false
	}
	for i := range got {
		if got[i].Type != want[i].Type || !bytes.Equal(got[i].Raw, want[i].Raw) {
			return false
		}
	}
	return true
}

func showDelivered(d []delivered) []string {
	var s []string
	for _, x := range d {
		s = append(s, fmt.Sprintf("%d:%x", x.Type, x.Raw))
	}
	return s
}

func showSegs(d []ref.Seg) []string {
	var s []string
	for _, x := range d {
		s = append(s, fmt.Sprintf("%d:%x", x.Type, x.Raw))
	}
	return s
}

// fillA is the deterministic payload filler used throughout (never random).
func fillA(i int) byte { return byte(i*37 + 11) }

// fillNoD3 avoids the preamble value.
func fillNoD3(i int) byte {
	b := byte(i*37 + 11)
	if b == 0xD3 {
		return 0x5A
	}
	return b
}

// validTimestampFill produces payload bytes whose MSM timestamp field is small
// (legal for every constellation) and whose remaining bytes follow fillA.
func validTimestampFill(i int) byte {
	if i >= 3 && i <= 6 {
		return 0 // bits 24..53 of the payload hold the 30-bit timestamp
	}
	return fillA(i)
}

// frameWithCRCContainingD3 searches payload variants until the CRC has a 0xD3 byte.
func frameWithCRCContainingD3(msgType, n int) []byte {
	for k := 0; k < 1<<16; k++ {
		p := ref.Payload(msgType, n, func(i int) byte {
			if i == n-1 {
				return byte(k)
			}
			if i == n-2 && n >= 4 {
				return byte(k >> 8)
			}
			return fillNoD3(i)
		})
		f := ref.Frame(p)
		c := f[len(f)-3:]
		if (c[0] == 0xD3 || c[1] == 0xD3 || c[2] == 0xD3) && !bytes.Contains(p, []byte{0xD3}) {
			return f
		}
	}
	panic("no frame with D3 in CRC found")
}

// symbolStrings enumerates all strings over alphabet of length 0..maxLen and
// calls f with each (the slice is reused).  Sharded by the first two symbols.
func symbolStrings(alphabet []byte, maxLen int, f func(s []byte)) {
	k := len(alphabet)
	// shards: prefixes of length 2 (plus the short strings handled by shard 0)
	parallelFor(k*k+1, func(sh int) {
		if sh == k*k {
			f([]byte{})
			for _, a := range alphabet {
				f([]byte{a})
			}
			return
		}
		if maxLen < 2 {
			return
		}
		buf := make([]byte, maxLen)
		buf[0], buf[1] = alphabet[sh/k], alphabet[sh%k]
		var rec func(n int)
		rec = func(n int) {
			f(buf[:n])
			if n == maxLen {
				return
			}
			for _, a := range alphabet {
				buf[n] = a
				rec(n + 1)
			}
		}
		rec(2)
	})
}

// segment menus ---------------------------------------------------------

type namedSeg struct {
	Name  string
	Bytes []byte
	// Kind: "frame" valid frame; "junk" D3-free junk; "other" anything else.
	Kind string
}

func nmea() []byte {
	return []byte("$GPGGA,123519,4807.038,N,01131.000,E,1,08,0.9,545.4,M,46.9,M,,*47\r\n")
}
func ubx() []byte {
	return []byte{0xB5, 0x62, 0x01, 0x02, 0x04, 0x00, 0x10, 0x20, 0x30, 0x40, 0xA7, 0x3C}
}

// c01Menu is the S2 menu: valid frames, foreign protocols, junk with and
// without 0xD3, malformed leaders, truncations and corrupted frames.
func c01Menu() []namedSeg {
	var m []namedSeg
	add := func(name, kind string, b []byte) { m = append(m, namedSeg{name, b, kind}) }
	f1005 := ref.TypedFrame(1005, 19, fillA)
	add("F1005/19", "frame", f1005)
	add("F1006/21", "frame", ref.TypedFrame(1006, 21, fillA))
	add("F1077/22", "frame", ref.TypedFrame(1077, 22, validTimestampFill))
	add("F1074/22", "frame", ref.TypedFrame(1074, 22, validTimestampFill))
	add("F1230/8", "frame", ref.TypedFrame(1230, 8, fillA))
	add("F0/1", "frame", ref.TypedFrame(0, 1, nil))
	add("F4095/2", "frame", ref.TypedFrame(4095, 2, fillA))
	add("F1077/4", "frame", ref.TypedFrame(1077, 4, fillA))
	add("F1077/2", "frame", ref.TypedFrame(1077, 2, fillA))
	add("Fcrc000000", "frame", ref.FrameWithCRC(1005, 19, fillA, 0))
	add("FcrcFFFFFF", "frame", ref.FrameWithCRC(1077, 22, validTimestampFill, 0xFFFFFF))
	add("F1087/3", "frame", ref.TypedFrame(1087, 3, fillA))
	add("F1097/255", "frame", ref.TypedFrame(1097, 255, validTimestampFill))
	add("F1127/256", "frame", ref.TypedFrame(1127, 256, validTimestampFill))
	add("F1087/1023", "frame", ref.TypedFrame(1087, 1023, validTimestampFill))
	add("F1019/211", "frame", ref.TypedFrame(1019, 211, fillA)) // leader d3 00 d3
	add("NMEA", "junk", nmea())
	add("UBX", "junk", ubx())
	add("junk1", "junk", []byte{0x55})
	add("junkD3in", "other", []byte{0x61, 0xD3, 0x62})
	add("loneD3", "other", []byte{0xD3})
	add("D3reserved", "other", []byte{0xD3, 0xFF, 0x00, 0x01, 0x02})
	add("D3zerolen", "other", []byte{0xD3, 0x00, 0x00, 0x3E, 0xD0})
	add("trunc2", "other", f1005[:2])
	add("trunc4", "other", f1005[:4])
	add("trunc10", "other", f1005[:10])
	add("truncLast", "other", f1005[:len(f1005)-1])
	flipped := append([]byte{}, f1005...)
	flipped[7] ^= 0x10
	add("bitflip", "other", flipped)
	longer := append([]byte{}, f1005...)
	longer[2]++
	add("len+1", "other", longer)
	shorter := append([]byte{}, f1005...)
	shorter[2]--
	add("len-1", "other", shorter)
	return m
}

// sequences calls f with every sequence of 1..maxLen menu indices.
func sequences(n, maxLen int, f func(idx []int)) {
	var all [][]int
	var rec func(cur []int)
	rec = func(cur []int) {
		if len(cur) > 0 {
			all = append(all, append([]int{}, cur...))
		}
		if len(cur) == maxLen {
			return
		}
		for i := 0; i < n; i++ {
			rec(append(cur, i))
		}
	}
	rec(nil)
	parallelFor(len(all), func(i int) { f(all[i]) })
}

func concatSegs(menu []namedSeg, idx []int) ([]byte, []string) {
	var s []byte
	var names []string
	for _, i := range idx {
		s = append(s, menu[i].Bytes...)
		names = append(names, menu[i].Name)
	}
	return s, names
}

// SequentialFraming is the differential oracle used by the pipeline
// properties: what the implementation's own framing loop delivers for the
// bytes when run in one goroutine over a pre-filled closed channel.
func SequentialFraming(stream []byte) ([]ref.Seg, string) {
	out, fault := implStream(stream)
	segs := make([]ref.Seg, len(out))
	for i, d := range out {
		segs[i] = ref.Seg{Type: d.Type, Raw: d.Raw}
	}
	return segs, fault
}

// implStreamFull is implStream returning, per delivered message, all the
// fields a consumer sees besides the raw bytes.
func implStreamFull(stream []byte) (out []string, fault string) {
	ch := make(chan byte, len(stream)+1)
	for _, b := range stream {
		ch <- b
	}
	close(ch)
	h := handler.New(frameStart, slog.LevelInfo)
	pb := pushback.New(ch)
	cl, site, p := guard(func() {
		for iter := 0; iter <= len(stream)+2; iter++ {
			m, err := h.FetchNextMessageFrame(pb)
			if err != nil && err.Error() == "done" {
				return
			}
			if m == nil {
				fault = "nil message"
				return
			}
			out = append(out, fmt.Sprintf("type=%d ts=%d sent=%q week=%q err=%q", m.MessageType, m.Timestamp, m.SentAt, m.StartOfWeek, m.ErrorMessage))
		}
	})
	if p {
		fault = "panic " + cl + "@" + site
	}
	return
}
