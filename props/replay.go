package props

import (
	"encoding/json"
	"fmt"
	"os"
)

// Replayers re-run one recorded case without the enumerator; keyed by replay_kind.
// Each returns true when the violation reproduces.
var Replayers = map[string]func(c json.RawMessage) (bool, string){}

// Replay re-executes the case stored in a replay file.
func Replay(path string) int {
	b, err := os.ReadFile(path)
	if err != nil {
		fmt.Fprintln(os.Stderr, err)
		return 2
	}
	var doc struct {
		Property    string          `json:"property"`
		Fingerprint string          `json:"fingerprint"`
		What        string          `json:"what"`
		Kind        string          `json:"replay_kind"`
		Case        json.RawMessage `json:"case"`
	}
	if err := json.Unmarshal(b, &doc); err != nil {
		fmt.Fprintln(os.Stderr, err)
		return 2
	}
	fmt.Printf("replaying %s: %s\n  %s\n  case: %s\n", doc.Property, doc.Fingerprint, doc.What, string(doc.Case))
	f, ok := Replayers[doc.Kind]
	if !ok {
		fmt.Printf("no single-case replayer for kind %q; re-run the check to reproduce\n", doc.Kind)
		return 0
	}
	repro, detail := f(doc.Case)
	fmt.Println(detail)
	if repro {
		fmt.Printf("VIOLATION property=%s replay=%s\n", doc.Property, path)
		return 1
	}
	fmt.Println("not reproduced")
	return 0
}
