package props

import (
	"encoding/json"
	"fmt"
	"log/slog"
	"reflect"
	"strings"
	"sync/atomic"
	"time"

	"verif/internal/ev"
	"verif/ref"

	"github.com/goblimey/go-ntrip/rtcm/handler"
	"github.com/goblimey/go-ntrip/rtcm/utils"
)

func init() {
	Registry["C06"] = func(r *ev.Run) { timeCheck(r, false) }
	Registry["C17"] = func(r *ev.Run) { timeCheck(r, true) }
	Replayers["time-history"] = func(c json.RawMessage) (bool, string) {
		var k timeHistory
		json.Unmarshal(c, &k)
		d, _ := replayTimeHistory(&k)
		return d != "", d
	}
}

type timeStep struct {
	// NewStream: this message starts a new input stream, handed to a further
	// HandleMessages call on the same handler (stream histories only)
	NewStream bool   `json:"new_stream,omitempty"`
	Const     string `json:"constellation"`
	MSM7      bool   `json:"msm7"`
	UTC       string `json:"true_utc,omitempty"`
	Illegal   uint   `json:"illegal_timestamp,omitempty"`
	c         ref.Constellation
	u         time.Time
}

type timeHistory struct {
	// Streams: the messages go through Handler.HandleMessages, one call per stream
	Streams bool       `json:"through_HandleMessages,omitempty"`
	Start   string     `json:"handler_start_time"`
	Debug   bool       `json:"debug_level"`
	Steps   []timeStep `json:"messages"`
}

var zones = func() []*time.Location {
	lon, _ := time.LoadLocation("Europe/London")
	mos, _ := time.LoadLocation("Europe/Moscow")
	return []*time.Location{time.UTC, lon, mos, time.FixedZone("UTC+14", 14*3600)}
}()

const tsLayout = "2006-01-02T15:04:05.000Z07:00"

// checkStep delivers one message and applies the oracle; "" = fine.
// (see ref.ValueCopyable)
var handlerCopyable = ref.ValueCopyable(reflect.TypeOf(handler.Handler{}))

func checkStep(h *handler.Handler, st *timeStep, debug bool) (kind, detail string) {
	t := st.c.MSMType(st.MSM7)
	ts := st.Illegal
	if st.Illegal == 0 {
		ts = st.c.Timestamp(st.u)
	}
	frame := ref.HeaderOnlyMSM(t, ts)
	var m *handler.Message
	var err error
	cl, site, p := guard(func() { m, err = h.GetMessage(frame) })
	if p {
		return "panic " + cl + "@" + site, ""
	}
	return judgeTimeMsg(m, err, st, t, ts)
}

// judgeTimeMsg applies the time oracle to one delivered message.
func judgeTimeMsg(m *handler.Message, err error, st *timeStep, t int, ts uint) (kind, detail string) {
	if m == nil || m.MessageType != t {
		return "message-not-typed", fmt.Sprint(err)
	}
	parse := func(s, prefix string) (time.Time, bool) {
		if !strings.HasPrefix(s, prefix) {
			return time.Time{}, false
		}
		s = strings.TrimPrefix(s, prefix)
		if i := strings.Index(s, " plus "); i >= 0 {
			s = s[:i]
		}
		v, e := time.Parse(utils.DateLayout, s)
		return v, e == nil
	}
	sent, okSent := parse(m.SentAt, "Time ")
	if st.Illegal != 0 {
		if err == nil || m.ErrorMessage == "" {
			return "illegal-timestamp-not-reported-as-error", fmt.Sprintf("timestamp %d: err=%v ErrorMessage=%q", ts, err, m.ErrorMessage)
		}
		if okSent {
			return "illegal-timestamp-shown-as-time", m.SentAt
		}
		return "", ""
	}
	if err != nil {
		return "valid-timestamp-rejected", err.Error()
	}
	if !okSent {
		return "SentAt-unparsable", m.SentAt
	}
	if m.Timestamp != ts {
		return "Timestamp-field-wrong", fmt.Sprint(m.Timestamp, ts)
	}
	name := ref.ConstNames[st.c]
	wantWeek := st.c.WeekStart(st.u)
	if !sent.Equal(st.u) {
		d := sent.Sub(st.u)
		cls := "other"
		switch {
		case d == 7*24*time.Hour:
			cls = "+7d"
		case d == -7*24*time.Hour:
			cls = "-7d"
		case d%(7*24*time.Hour) == 0:
			cls = "whole-weeks"
		case d%(24*time.Hour) == 0:
			cls = "whole-days"
		}
		return fmt.Sprintf("SentAt-wrong constellation=%s error=%s", name, cls), fmt.Sprintf("reported %s, true %s (off by %v)", sent.UTC().Format(tsLayout), st.u.Format(tsLayout), d)
	}
	sow, okW := parse(m.StartOfWeek, "Start of "+utils.GetConstellation(t)+" week ")
	if !okW {
		return "StartOfWeek-unparsable", m.StartOfWeek
	}
	if !sow.Equal(wantWeek) {
		d := sow.Sub(wantWeek)
		cls := "other"
		if d == -7*24*time.Hour {
			cls = "week-not-advanced"
		} else if d%(7*24*time.Hour) == 0 {
			cls = "whole-weeks"
		}
		return fmt.Sprintf("StartOfWeek-wrong constellation=%s error=%s", name, cls), fmt.Sprintf("reported %s, true %s", sow.UTC().Format(tsLayout), wantWeek.Format(tsLayout))
	}
	return "", ""
}

func replayTimeHistory(k *timeHistory) (string, int) {
	T, err := time.Parse(time.RFC3339Nano, k.Start)
	if err != nil {
		return "bad start time", 0
	}
	lvl := slog.LevelInfo
	if k.Debug {
		lvl = slog.LevelDebug
	}
	h := handler.New(T, lvl)
	for i := range k.Steps {
		st := &k.Steps[i]
		for c, n := range ref.ConstNames {
			if n == st.Const {
				st.c = ref.Constellation(c)
			}
		}
		if st.UTC != "" {
			st.u, _ = time.Parse(time.RFC3339Nano, st.UTC)
		}
		if k.Streams {
			continue
		}
		if kind, d := checkStep(h, st, k.Debug); kind != "" {
			return fmt.Sprintf("message %d: %s (%s)", i+1, kind, d), i
		}
	}
	if k.Streams {
		if kind, d, i := runTimeStreams(T, lvl, k.Steps); kind != "" {
			return fmt.Sprintf("message %d: %s (%s)", i+1, kind, d), i
		}
	}
	return "", 0
}

// runTimeStreams sends the messages through Handler.HandleMessages: the steps
// are cut into streams at every NewStream mark, and each stream is one call on
// the SAME handler with fresh channels (a reconnecting application).
func runTimeStreams(T time.Time, lvl slog.Level, steps []timeStep) (kind, detail string, at int) {
	h := handler.New(T, lvl)
	for i := 0; i < len(steps); {
		j := i + 1
		for j < len(steps) && !steps[j].NewStream {
			j++
		}
		var in []byte
		for k := i; k < j; k++ {
			in = append(in, ref.HeaderOnlyMSM(steps[k].c.MSMType(steps[k].MSM7), steps[k].c.Timestamp(steps[k].u))...)
		}
		msgs, fault := implHandleMessages(h, in)
		if fault != "" {
			return "stream " + fault, fmt.Sprintf("stream of messages %d..%d", i+1, j), i
		}
		if len(msgs) != j-i {
			return "stream-delivery-count", fmt.Sprintf("stream of %d frames delivered %d messages", j-i, len(msgs)), i
		}
		for k := i; k < j; k++ {
			st := &steps[k]
			m := msgs[k-i]
			if kind, detail := judgeTimeMsg(&m, nil, st, st.c.MSMType(st.MSM7), st.c.Timestamp(st.u)); kind != "" {
				return kind, detail, k
			}
		}
		i = j
	}
	return "", "", 0
}

// timeCheck enumerates start times and message histories.  relaxed=false is
// C06 (first observation not earlier than T); relaxed=true is C17 (T anywhere
// in the constellation week of the first observation).
func timeCheck(r *ev.Run, relaxed bool) {
	thorough := r.Tier == "thorough"
	id := "C06"
	if relaxed {
		id = "C17"
	}
	if relaxed {
		r.Rule = "for each of GPS, Galileo, GLONASS, BeiDou: start time T in {week start, +1 ms, +1 s, Wednesday noon, week end -1 s, -1 ms} of a constellation week, each in 4 time zones, in the week of 2023-05-10 and, with three start times each, in weeks of June 2013 and July 2010 (civil Moscow time UTC+4), the 2019/2020 year end and March/November 2024 (next to the daylight-saving changes of the checker's host zone); first observation u in {week start, +1 ms, Wednesday noon, week end -1 ms, T-1 h, T-1 s, T-1 ms, T, T+1 ms, T+1 h} restricted to the same week (so u<T, u=T and u>T all occur); then every history of depth <=2 (quick) / <=3 (thorough) further messages of any constellation with the C06 step menu; messages are CRC-valid header-only MSM4/MSM7 frames through handler.GetMessage; both log levels. Oracle: SentAt and StartOfWeek parsed with the public DateLayout equal the model's instant and week start. Non-trivial = histories whose first observation differs from T; distinct = distinct (T, history)"
	} else {
		r.Rule = "start times T = Wednesday noon and, for each of GPS/Galileo, GLONASS and BeiDou, the roll-over instant -1 ms / +0 / +1 ms, each in UTC, Europe/London, Europe/Moscow and UTC+14, plus mid-week and GLONASS roll-over start times in June 2013, July 2010 (civil Moscow time UTC+4), at the 2019/2020 year end and in the weeks of 13 March and 6 November 2024 (the roll-over after them is the first one computed across a daylight-saving change of the zone the checker process runs in, America/New_York); histories: every sequence of <=3 (quick) / <=4 (thorough, from the UTC start times; <=3 from the others) messages where each message belongs to one of the four constellations (MSM4 and MSM7 alternating) and its true time is the constellation's previous time advanced by one of {0, 1 ms, 1 s, 1 h, 1 d, 5 d 23:59:59.999, to 1 ms before the next roll-over, to the roll-over, to 1 ms after it} (first message: not earlier than T, same constellation week), or carries an illegal timestamp (7 days of ms; all ones; GLONASS day 7; GLONASS 24 h of ms); plus single-constellation histories of depth <=5 (quick) / <=6 (thorough); messages are CRC-valid header-only frames through handler.GetMessage at both log levels (implementation state is copied at every branch while the Handler struct holds only values - checked by reflection - and rebuilt from a fresh handler by replaying the history otherwise). Oracle: SentAt and StartOfWeek parsed with the public DateLayout equal the true instant and week start of the reference time model; an illegal timestamp gives an error and no time and leaves later messages exact; plus stream histories: four-message histories (first observation, a second constellation, then +0/+1 s/+1 d/+5 d 23:59:59.999/to the roll-over/+1 ms/+2 d, then +1 s/+3 d/past the next roll-over) delivered through Handler.HandleMessages and cut into one, two or three consecutive streams in every way, each stream a further call on the SAME handler with fresh channels. Non-trivial = histories crossing at least one roll-over; distinct = distinct (T, history)"
	}
	r.Assumptions = []string{"reference time model /verif/ref/gnsstime.go: GPS and Galileo weeks start Sunday 00:00:00 UTC - 18 s, BeiDou - 4 s, GLONASS day and week on UTC+3", "the precondition of the statement is enforced by construction: per constellation non-decreasing times, consecutive messages less than six days apart, first observation in T's constellation week" + map[bool]string{true: " (before, at or after T)", false: " and not before T"}[relaxed]}
	const ms = time.Millisecond
	wed := time.Date(2023, 5, 10, 12, 0, 0, 0, time.UTC)
	// other weeks: civil Moscow time was UTC+4 in 2013 and in summer 2010 (the
	// constellation clock is not the civil clock), and a week across a year end
	// ... and the weeks before the host zone's daylight-saving changes of 2024 (the
	// checker runs in America/New_York: 10 March and 3 November), so that the next
	// roll-over is computed across the change
	otherWeeks := []time.Time{time.Date(2013, 6, 12, 12, 0, 0, 0, time.UTC), time.Date(2010, 7, 14, 12, 0, 0, 0, time.UTC), time.Date(2019, 12, 31, 12, 0, 0, 0, time.UTC),
		time.Date(2024, 3, 13, 12, 0, 0, 0, time.UTC), time.Date(2024, 11, 6, 12, 0, 0, 0, time.UTC)}
	type start struct {
		T time.Time
		c ref.Constellation // constellation whose week edge T sits on (or GPS)
	}
	var starts []start
	cons := []ref.Constellation{ref.GPS, ref.Galileo, ref.Glonass, ref.Beidou}
	if relaxed {
		for _, c := range cons {
			ws := c.WeekStart(wed)
			for _, T := range []time.Time{ws, ws.Add(ms), ws.Add(time.Second), wed, ws.Add(7*24*time.Hour - time.Second), ws.Add(7*24*time.Hour - ms)} {
				for _, z := range zones {
					starts = append(starts, start{T.In(z), c})
				}
			}
		}
		for _, w := range otherWeeks {
			for _, c := range cons {
				ws := c.WeekStart(w)
				for i, T := range []time.Time{ws.Add(time.Second), w, ws.Add(7*24*time.Hour - time.Second)} {
					starts = append(starts, start{T.In(zones[i%len(zones)]), c})
				}
			}
		}
	} else {
		for _, z := range zones {
			starts = append(starts, start{wed.In(z), ref.GPS})
		}
		for i, w := range otherWeeks {
			starts = append(starts, start{w.In(zones[i%len(zones)]), ref.GPS})
			ro := ref.Glonass.NextRollover(w)
			starts = append(starts, start{ro.Add(-ms).In(zones[(i+1)%len(zones)]), ref.Glonass})
		}
		for _, c := range []ref.Constellation{ref.GPS, ref.Glonass, ref.Beidou} {
			ro := c.NextRollover(wed)
			for _, d := range []time.Duration{-ms, 0, ms} {
				for _, z := range zones {
					starts = append(starts, start{ro.Add(d).In(z), c})
				}
			}
		}
	}
	deltas := []time.Duration{0, ms, time.Second, time.Hour, 24 * time.Hour, 6*24*time.Hour - ms}
	illegal := map[ref.Constellation][]uint{
		ref.GPS: {604800000, 1<<30 - 1}, ref.Galileo: {604800000}, ref.Beidou: {604800000, 1<<30 - 1},
		ref.Glonass: {7 << 27, 2<<27 | 86400000, 1<<30 - 1},
	}
	depth, deep := 3, 5
	if thorough {
		depth, deep = 4, 6
	}
	if relaxed {
		depth = 3
		if thorough {
			depth = 4
		}
	}
	type node struct {
		h     handler.Handler
		cur   [4]time.Time
		have  [4]bool
		steps []timeStep
		roll  bool
	}
	var total, trans int64
	report := func(T time.Time, debug bool, steps []timeStep, kind, detail string) {
		hist := timeHistory{Start: T.Format(time.RFC3339Nano), Debug: debug}
		for _, s := range steps {
			s.Const = ref.ConstNames[s.c]
			if s.Illegal == 0 {
				s.UTC = s.u.Format(time.RFC3339Nano)
			}
			hist.Steps = append(hist.Steps, s)
		}
		after := 0
		for _, s := range steps[:len(steps)-1] {
			if s.Illegal == 0 {
				after++
			}
		}
		_ = after
		r.Violate(ev.Violation{Fingerprint: id + " " + kind, What: kind + ": " + detail, Case: hist, ReplayKind: "time-history"})
	}
	type job struct {
		s     start
		only  int // -1: all constellations; else a single constellation (deep histories)
		debug bool
	}
	var jobs []job
	for i, s := range starts {
		jobs = append(jobs, job{s, -1, i%2 == 0})
		if !relaxed {
			for _, c := range cons {
				jobs = append(jobs, job{s, int(c), i%2 == 1})
			}
		}
	}
	parallelFor(len(jobs), func(ji int) {
		jb := jobs[ji]
		T := jb.s.T
		lvl := slog.LevelInfo
		if jb.debug {
			lvl = slog.LevelDebug
		}
		maxDepth := depth
		if jb.only >= 0 {
			maxDepth = deep
		}
		if thorough && !relaxed && jb.only < 0 && T.Location() != time.UTC {
			maxDepth = depth - 1 // the deepest all-constellation histories only from the UTC start times
		}
		var n, tr, rolled int64
		// a handler that holds maps, slices or pointers cannot be branched by
		// copying the struct: bring a fresh one to the node's state by replay
		rebuild := func(h *handler.Handler, steps []timeStep) {
			if handlerCopyable {
				return
			}
			*h = *handler.New(T, lvl)
			for i := range steps {
				st := steps[i]
				checkStep(h, &st, jb.debug)
			}
		}
		var rec func(nd *node)
		rec = func(nd *node) {
			if len(nd.steps) >= maxDepth {
				n++
				if nd.roll {
					rolled++
				}
				return
			}
			for _, c := range cons {
				if jb.only >= 0 && int(c) != jb.only {
					continue
				}
				var cands []time.Time
				if !nd.have[c] {
					// first observation of this constellation
					Tms := T.UTC().Truncate(ms)
					if Tms.Before(T.UTC()) {
						Tms = Tms.Add(ms)
					}
					ws := c.WeekStart(T)
					we := ws.Add(7 * 24 * time.Hour)
					var first []time.Time
					if relaxed {
						first = []time.Time{ws, ws.Add(ms), ws.Add(84 * time.Hour), we.Add(-ms), Tms.Add(-time.Hour), Tms.Add(-time.Second), Tms.Add(-ms), Tms, Tms.Add(ms), Tms.Add(time.Hour)}
					} else {
						first = []time.Time{Tms, Tms.Add(ms), Tms.Add(time.Second), Tms.Add(time.Hour), we.Add(-ms)}
					}
					seen := map[int64]bool{}
					for _, u := range first {
						if u.Before(ws) || !u.Before(we) || (!relaxed && u.Before(T)) || seen[u.UnixNano()] {
							continue
						}
						if relaxed && len(nd.steps) > 0 && u.Before(T) {
							continue // later constellations start at or after T in C17 too
						}
						seen[u.UnixNano()] = true
						cands = append(cands, u)
					}
				} else {
					for _, d := range deltas {
						cands = append(cands, nd.cur[c].Add(d))
					}
					ro := c.NextRollover(nd.cur[c])
					for _, d := range []time.Duration{-ms, 0, ms} {
						u := ro.Add(d)
						if u.Sub(nd.cur[c]) < 6*24*time.Hour && !u.Before(nd.cur[c]) {
							cands = append(cands, u)
						}
					}
				}
				msm7 := len(nd.steps)%2 == 0
				for _, u := range cands {
					child := *nd
					child.steps = append(append([]timeStep{}, nd.steps...), timeStep{MSM7: msm7, c: c, u: u})
					st := &child.steps[len(child.steps)-1]
					rebuild(&child.h, nd.steps)
					kind, detail := checkStep(&child.h, st, jb.debug)
					tr++
					if kind != "" {
						report(T, jb.debug, child.steps, kind, detail)
						continue
					}
					if nd.have[c] && !c.WeekStart(u).Equal(c.WeekStart(nd.cur[c])) {
						child.roll = true
					}
					child.cur[c], child.have[c] = u, true
					rec(&child)
				}
				// illegal timestamps (only in the strict C06 enumeration)
				if !relaxed {
					for _, bad := range illegal[c] {
						child := *nd
						child.steps = append(append([]timeStep{}, nd.steps...), timeStep{MSM7: msm7, c: c, Illegal: bad})
						rebuild(&child.h, nd.steps)
						kind, detail := checkStep(&child.h, &child.steps[len(child.steps)-1], jb.debug)
						tr++
						if kind != "" {
							report(T, jb.debug, child.steps, kind, detail)
							continue
						}
						rec(&child)
					}
				}
			}
		}
		root := &node{h: *handler.New(T, lvl)}
		rec(root)
		r.Count(n, 0, tr, n)
		if relaxed {
			atomic.AddInt64(&r.DistinctN, n)
		} else {
			atomic.AddInt64(&r.DistinctN, rolled)
		}
		r.Outcome(fmt.Sprintf("constellation-set=%d", jb.only))
		_ = total
		_ = trans
		if ji == 1 {
			r.Sample(map[string]interface{}{"handler_start_time": T.Format(time.RFC3339Nano), "example_history": "first observation, then +1 h, then to the roll-over, then +1 ms", "depth": maxDepth})
		}
	})
	// stream histories: the same kind of history, but delivered through
	// Handler.HandleMessages and cut into consecutive streams in every possible
	// way, each stream a further call on the same handler
	if !relaxed {
		var sjobs [][]timeStep
		var sT []time.Time
		for _, T := range []time.Time{wed, ref.GPS.NextRollover(wed).Add(-time.Hour)} {
			for _, c := range cons {
				ro := c.NextRollover(T)
				firsts := []time.Time{T.Add(time.Hour), ro.Add(-ms)}
				for _, u1 := range firsts {
					if !c.WeekStart(u1).Equal(c.WeekStart(T)) {
						continue
					}
					var seconds []time.Time
					for _, d := range []time.Duration{0, time.Second, 24 * time.Hour, 6*24*time.Hour - ms} {
						seconds = append(seconds, u1.Add(d))
					}
					for _, d := range []time.Duration{0, ms, 2 * 24 * time.Hour} {
						if u := c.NextRollover(u1).Add(d); u.Sub(u1) < 6*24*time.Hour {
							seconds = append(seconds, u)
						}
					}
					for _, u2 := range seconds {
						thirds := []time.Time{u2.Add(time.Second), u2.Add(3 * 24 * time.Hour)}
						if u := c.NextRollover(u2).Add(time.Hour); u.Sub(u2) < 6*24*time.Hour {
							thirds = append(thirds, u)
						}
						for _, u3 := range thirds {
							for cut := 0; cut < 4; cut++ { // which of messages 2 and 3 start a new stream
								// a message of another constellation rides along in the first stream
								o := cons[(int(c)+1)%4]
								uo := T.Add(time.Minute)
								if !o.WeekStart(uo).Equal(o.WeekStart(T)) {
									uo = T // precondition: first observation in T's week
								}
								steps := []timeStep{{c: c, u: u1, MSM7: true}, {c: o, u: uo, MSM7: false},
									{c: c, u: u2, MSM7: false, NewStream: cut&1 != 0}, {c: c, u: u3, MSM7: true, NewStream: cut&2 != 0}}
								sjobs = append(sjobs, steps)
								sT = append(sT, T)
							}
						}
					}
				}
			}
		}
		parallelFor(len(sjobs), func(i int) {
			debug := i%2 == 0
			lvl := slog.LevelInfo
			if debug {
				lvl = slog.LevelDebug
			}
			kind, detail, at := runTimeStreams(sT[i], lvl, sjobs[i])
			if kind != "" {
				hist := timeHistory{Streams: true, Start: sT[i].Format(time.RFC3339Nano), Debug: debug}
				for _, st := range sjobs[i][:at+1] {
					st.Const = ref.ConstNames[st.c]
					st.UTC = st.u.Format(time.RFC3339Nano)
					hist.Steps = append(hist.Steps, st)
				}
				r.Violate(ev.Violation{Fingerprint: id + " streams " + kind, What: "through HandleMessages: " + kind + ": " + detail, Case: hist, ReplayKind: "time-history"})
			}
			r.Count(1, 0, 4, 1)
			atomic.AddInt64(&r.DistinctN, 1)
		})
		r.Extra["stream_histories"] = len(sjobs)
	}
	r.Extra["start_times"] = len(starts)
	r.Extra["depth_all_constellations"] = depth
	r.Extra["depth_single_constellation"] = deep
}
