package props

import (
	"encoding/json"
	"fmt"
	"log/slog"
	"math"
	"math/big"
	"strings"
	"time"

	"verif/internal/ev"
	"verif/ref"

	"github.com/goblimey/go-ntrip/rtcm/handler"
	msm4 "github.com/goblimey/go-ntrip/rtcm/type_msm4/message"
	sat4 "github.com/goblimey/go-ntrip/rtcm/type_msm4/satellite"
	sig4 "github.com/goblimey/go-ntrip/rtcm/type_msm4/signal"
	msm7 "github.com/goblimey/go-ntrip/rtcm/type_msm7/message"
	sat7 "github.com/goblimey/go-ntrip/rtcm/type_msm7/satellite"
	sig7 "github.com/goblimey/go-ntrip/rtcm/type_msm7/signal"
	"github.com/goblimey/go-ntrip/rtcm/utils"
)

func init() {
	Registry["C08"] = C08
	Replayers["signal-cell"] = func(c json.RawMessage) (bool, string) {
		var k cellCase
		json.Unmarshal(c, &k)
		d := c08One(&k)
		return d != "", d
	}
}

type cellCase struct {
	MSM7       bool    `json:"msm7"`
	Whole      uint    `json:"whole_ms"`
	Frac       uint    `json:"frac_1024"`
	FineRange  int     `json:"fine_range"`
	FinePhase  int     `json:"fine_phase"`
	RoughRate  int     `json:"rough_rate"`
	FineRate   int     `json:"fine_rate"`
	Wavelength float64 `json:"wavelength"`
	SignalID   uint    `json:"signal_id"`
}

var (
	ratC1000  = big.NewRat(299792458, 1000) // metres per light-millisecond
	ulpBudget = 8.0
)

// closeTo reports whether got is within ulpBudget ulps of the exact rational value.
func closeTo(got float64, exact *big.Rat) bool {
	e, _ := exact.Float64()
	if math.IsNaN(got) || math.IsInf(got, 0) {
		return false
	}
	if got == e {
		return true
	}
	u := math.Nextafter(math.Abs(e), math.Inf(1)) - math.Abs(e)
	if e == 0 {
		u = 5e-324
	}
	return math.Abs(got-e) <= ulpBudget*u
}

func pow2(n int) *big.Rat { return new(big.Rat).SetInt(new(big.Int).Lsh(big.NewInt(1), uint(n))) }

// exactMillis = w + f/1024 + fine / 2^scale  (as a rational)
func exactMillis(w, f uint, fine int, scale int) *big.Rat {
	r := new(big.Rat).SetInt64(int64(w))
	r.Add(r, new(big.Rat).Quo(new(big.Rat).SetInt64(int64(f)), pow2(10)))
	r.Add(r, new(big.Rat).Quo(new(big.Rat).SetInt64(int64(fine)), pow2(scale)))
	return r
}

func c08One(k *cellCase) string {
	const invWhole = 255
	rangeScale, phaseScale := 24, 29
	invFineRange, invFinePhase := -(1 << 14), -(1 << 21)
	if k.MSM7 {
		rangeScale, phaseScale = 29, 31
		invFineRange, invFinePhase = -(1 << 19), -(1 << 23)
	}
	var rng, phase, rate, doppler float64
	var text, satText string
	cl, site, p := guard(func() {
		if k.MSM7 {
			s := sat7.New(3, k.Whole, k.Frac, 0, k.RoughRate, slog.LevelDebug)
			c := sig7.New(k.SignalID, s, k.FineRange, k.FinePhase, 1, false, 40, k.FineRate, k.Wavelength, slog.LevelDebug)
			rng, phase, rate, doppler = c.RangeInMetres(), c.PhaseRange(), c.PhaseRangeRate(), c.PhaseRangeRateDoppler()
			text, satText = c.String(), s.String()
			c.LogLevel = slog.LevelInfo
			text += "\n" + c.String()
		} else {
			s := sat4.New(3, k.Whole, k.Frac, slog.LevelDebug)
			c := sig4.New(k.SignalID, s, k.FineRange, k.FinePhase, 1, false, 40, k.Wavelength, slog.LevelDebug)
			rng, phase = c.RangeInMetres(), c.PhaseRange()
			text, satText = c.String(), s.String()
		}
	})
	if p {
		return "PANIC " + cl + "@" + site
	}
	lam := new(big.Rat)
	if k.Wavelength > 0 {
		lam.SetFloat64(k.Wavelength)
	}
	if k.Whole == invWhole {
		// invalid rough range: values invalid (zero) and "invalid" in the display
		if rng != 0 {
			return fmt.Sprintf("INVALID-ROUGH range not zero: %v", rng)
		}
		if k.Wavelength > 0 && phase != 0 {
			return fmt.Sprintf("INVALID-ROUGH phase range not zero: %v", phase)
		}
		if !strings.Contains(text, "invalid") || !strings.Contains(satText, "invalid") {
			return "INVALID-ROUGH display does not say invalid"
		}
	} else {
		fr := k.FineRange
		if fr == invFineRange {
			fr = 0 // falls back to the rough value alone
		}
		ex := exactMillis(k.Whole, k.Frac, fr, rangeScale)
		if ex.Sign() >= 0 {
			want := new(big.Rat).Mul(ex, ratC1000)
			if !closeTo(rng, want) {
				w, _ := want.Float64()
				return fmt.Sprintf("RANGE got %.17g want %.17g", rng, w)
			}
			if !strings.Contains(text, fmt.Sprintf("%.3f", rng)) {
				return "RANGE not shown in display"
			}
		}
		fp := k.FinePhase
		if fp == invFinePhase {
			fp = 0
		}
		exp := exactMillis(k.Whole, k.Frac, fp, phaseScale)
		if exp.Sign() >= 0 && k.Wavelength > 0 {
			want := new(big.Rat).Quo(new(big.Rat).Mul(exp, ratC1000), lam)
			if !closeTo(phase, want) {
				w, _ := want.Float64()
				return fmt.Sprintf("PHASE got %.17g want %.17g", phase, w)
			}
		}
	}
	if k.MSM7 {
		if k.RoughRate == -(1 << 13) {
			if rate != 0 {
				return fmt.Sprintf("INVALID-ROUGH-RATE rate not zero: %v", rate)
			}
			if !strings.Contains(text, "invalid") {
				return "INVALID-ROUGH-RATE display does not say invalid"
			}
		} else {
			fine := k.FineRate
			if fine == -(1 << 14) {
				fine = 0
			}
			want := new(big.Rat).Add(new(big.Rat).SetInt64(int64(k.RoughRate)), big.NewRat(int64(fine), 10000))
			if !closeTo(rate, want) {
				w, _ := want.Float64()
				return fmt.Sprintf("RATE got %.17g want %.17g", rate, w)
			}
			if k.Wavelength > 0 {
				wd := new(big.Rat).Neg(new(big.Rat).Quo(want, lam))
				if !closeTo(doppler, wd) {
					w, _ := wd.Float64()
					return fmt.Sprintf("DOPPLER got %.17g want %.17g", doppler, w)
				}
			}
		}
	}
	return ""
}

// documented band frequencies (Hz) a wavelength may be derived from
var bandFreqs = []float64{1.57542e9, 1.22760e9, 1.17645e9, 1.27875e9, 1.20714e9, 1.191795e9, 1.60200e9, 1.24600e9, 1.202025e9, 1.561098e9, 1.26852e9}

// docFreqMHz: the carrier each MSM signal id is documented to use (RTCM 10403.3
// tables 3.5-91 ff., which the frequency tables of rtcm/utils reproduce),
// written down here independently.  Where two values are listed either is
// accepted (BeiDou ids 14-16 are B2I on 1207.14 MHz in the standard and
// documented as 1176.45 MHz in the repository).  Ids without an entry are not
// judged.
var docFreqMHz = map[string]map[uint][]float64{
	"GPS": {2: {1575.42}, 3: {1575.42}, 4: {1575.42}, 8: {1227.6}, 9: {1227.6}, 10: {1227.6}, 15: {1227.6}, 16: {1227.6}, 17: {1227.6},
		22: {1176.45}, 23: {1176.45}, 24: {1176.45}, 30: {1575.42}, 31: {1575.42}, 32: {1575.42}},
	"Glonass": {2: {1602}, 3: {1602}, 8: {1246}, 9: {1246}},
	"Galileo": {2: {1575.42}, 3: {1575.42}, 4: {1575.42}, 5: {1575.42}, 6: {1575.42}, 8: {1278.75}, 9: {1278.75}, 10: {1278.75}, 11: {1278.75}, 12: {1278.75},
		14: {1207.14}, 15: {1207.14}, 16: {1207.14}, 18: {1191.795}, 19: {1191.795}, 20: {1191.795}, 22: {1176.45}, 23: {1176.45}, 24: {1176.45}},
	"Beidou": {2: {1561.098}, 3: {1561.098}, 4: {1561.098}, 8: {1268.52}, 9: {1268.52}, 10: {1268.52}, 14: {1207.14, 1176.45}, 15: {1207.14, 1176.45}, 16: {1207.14, 1176.45}},
}

// C08: ranges, phase ranges and rates against the standard's formulas.
func C08(r *ev.Run) {
	thorough := r.Tier == "thorough"
	r.Rule = "signal cells built through the packages' constructors and through decoded messages; whole ms all 0..255 x fractional {0,1,511,512,1023}; whole in {0,1,127,254} x all fractional 0..1023; every value of the MSM4 fine range (2^15), rough rate (2^14) and fine rate (2^15) fields at 6 anchor points; MSM7 fine range (2^20), MSM4 fine phase (2^22) and MSM7 fine phase (2^24): every value in the thorough tier, odd strides 5, 15 and 61 in the quick tier; the full product of boundary sets {min(invalid), min+1, -1, 0, 1, max}; 4 constellations x 32 signal ids for the wavelength; MSM4/MSM7 pairs encoding the same quantity; every value of the MSM7 fine rate, MSM7 rough rate and MSM4 fine range (MSM7 fine range, MSM4/MSM7 fine phase: strides 15/15/61 quick, every value thorough) through one-cell messages decoded by the message packages, the decoded cell's numbers equal to those of a constructed cell with the same fields; oracle in exact rational arithmetic (math/big), tolerance 8 ulp. Non-trivial = cases with a valid rough range and defined wavelength; distinct = distinct field vectors"
	r.Assumptions = []string{"cases whose true value is negative or whose wavelength is undefined are only checked for absence of panics, as the statement excludes them", "the wavelength reported for a signal must be c/f for one of the documented band frequencies or zero, and for the 47 (constellation, signal id) pairs with a documented carrier it must be that carrier's (table written down independently; BeiDou ids 14-16 accept 1207.14 or 1176.45 MHz)"}
	lamL1 := utils.SpeedOfLightMS / 1.57542e9
	fail := func(k *cellCase, d string) {
		r.Violate(ev.Violation{Fingerprint: "C08 " + firstWords(d, 1) + map[bool]string{true: " msm7", false: " msm4"}[k.MSM7], What: d, Case: k, ReplayKind: "signal-cell"})
	}
	run := func(k cellCase) {
		if d := c08One(&k); d != "" {
			fail(&k, d)
		}
	}
	type rng struct{ lo, hi, step int }
	anchors := []struct {
		w, f uint
	}{{0, 512}, {1, 0}, {77, 333}, {127, 1023}, {254, 1023}, {254, 0}}
	var total int64
	// (1) whole x frac
	for _, m7 := range []bool{false, true} {
		for w := uint(0); w <= 255; w++ {
			for _, f := range []uint{0, 1, 511, 512, 1023} {
				run(cellCase{MSM7: m7, Whole: w, Frac: f, FineRange: 1234, FinePhase: -4321, RoughRate: 100, FineRate: -77, Wavelength: lamL1, SignalID: 2})
				total++
			}
		}
		for _, w := range []uint{0, 1, 127, 254} {
			for f := uint(0); f <= 1023; f++ {
				run(cellCase{MSM7: m7, Whole: w, Frac: f, FineRange: -1, FinePhase: 1, RoughRate: -1, FineRate: 1, Wavelength: lamL1, SignalID: 2})
				total++
			}
		}
	}
	// (2) complete sweeps of each fine field at the anchor points
	type sweep struct {
		m7    bool
		field string
		r     rng
	}
	// quick: strided sweeps (every alignment of the low bits is still visited
	// because the strides are odd); thorough: every value
	phase7step, phase4step, range7step := 61, 15, 5
	if thorough {
		phase7step, phase4step, range7step = 1, 1, 1
	}
	sweeps := []sweep{
		{false, "range", rng{-(1 << 14), 1<<14 - 1, 1}}, {true, "range", rng{-(1 << 19), 1<<19 - 1, range7step}},
		{false, "phase", rng{-(1 << 21), 1<<21 - 1, phase4step}}, {true, "phase", rng{-(1 << 23), 1<<23 - 1, phase7step}},
		{true, "roughrate", rng{-(1 << 13), 1<<13 - 1, 1}}, {true, "finerate", rng{-(1 << 14), 1<<14 - 1, 1}},
	}
	type chunk struct {
		sw     sweep
		lo, hi int
		a      int
	}
	var chunks []chunk
	for _, sw := range sweeps {
		for a := range anchors {
			const parts = 16
			span := (sw.r.hi - sw.r.lo + 1 + parts - 1) / parts
			for lo := sw.r.lo; lo <= sw.r.hi; lo += span {
				hi := lo + span - 1
				if hi > sw.r.hi {
					hi = sw.r.hi
				}
				chunks = append(chunks, chunk{sw, lo, hi, a})
			}
		}
	}
	parallelFor(len(chunks), func(i int) {
		c := chunks[i]
		var n int64
		for v := c.lo; v <= c.hi; v += c.sw.r.step {
			k := cellCase{MSM7: c.sw.m7, Whole: anchors[c.a].w, Frac: anchors[c.a].f, FineRange: 5, FinePhase: -5, RoughRate: 7, FineRate: -7, Wavelength: lamL1, SignalID: 2}
			switch c.sw.field {
			case "range":
				k.FineRange = v
			case "phase":
				k.FinePhase = v
			case "roughrate":
				k.RoughRate = v
			case "finerate":
				k.FineRate = v
			}
			if d := c08One(&k); d != "" {
				fail(&k, d)
			}
			n++
		}
		r.Count(n, 0, n, n)
		r.DistinctN += n
	})
	// (2b) special values of every fine field at every anchor, in both tiers:
	// +-2^k and their neighbours, and the other format's 'invalid' markers
	// (a strided sweep must not be the only thing between a single-value
	// defect and the quick tier)
	for _, sw := range sweeps {
		var vals []int
		for k := uint(0); k < 24; k++ {
			for _, d := range []int{-1, 0, 1} {
				vals = append(vals, 1<<k+d, -(1<<k)+d)
			}
		}
		vals = append(vals, -16384, -2097152, -524288, -8388608, -8192, -512, -32768, 16383, 2097151)
		for a := range anchors {
			for _, v := range vals {
				if v < sw.r.lo || v > sw.r.hi {
					continue
				}
				k := cellCase{MSM7: sw.m7, Whole: anchors[a].w, Frac: anchors[a].f, FineRange: 5, FinePhase: -5, RoughRate: 7, FineRate: -7, Wavelength: lamL1, SignalID: 2}
				switch sw.field {
				case "range":
					k.FineRange = v
				case "phase":
					k.FinePhase = v
				case "roughrate":
					k.RoughRate = v
				case "finerate":
					k.FineRate = v
				}
				run(k)
				total++
			}
		}
	}
	// (3) boundary product
	for _, m7 := range []bool{false, true} {
		b := func(bits int) []int {
			mn, mx := -(1 << uint(bits-1)), 1<<uint(bits-1)-1
			return []int{mn, mn + 1, -1, 0, 1, mx}
		}
		rb, pb := b(15), b(22)
		if m7 {
			rb, pb = b(20), b(24)
		}
		for _, w := range []uint{0, 1, 254, 255} {
			for _, f := range []uint{0, 1, 1023} {
				for _, fr := range rb {
					for _, fp := range pb {
						for _, rr := range b(14) {
							for _, fd := range b(15) {
								run(cellCase{MSM7: m7, Whole: w, Frac: f, FineRange: fr, FinePhase: fp, RoughRate: rr, FineRate: fd, Wavelength: lamL1, SignalID: 2})
								total++
								if !m7 {
									break
								}
							}
							if !m7 {
								break
							}
						}
					}
				}
			}
		}
	}
	// (4) wavelengths: every constellation x signal id
	for _, con := range []string{"GPS", "Galileo", "Glonass", "Beidou"} {
		for id := uint(0); id <= 33; id++ {
			lam := utils.GetSignalWavelength(con, id)
			total++
			ok := lam == 0
			for _, f := range bandFreqs {
				if w := 299792458.0 / f; math.Abs(lam-w) <= 2*(math.Nextafter(w, 2*w)-w) {
					ok = true
				}
			}
			if !ok {
				r.Violate(ev.Violation{Fingerprint: "C08 WAVELENGTH not c/f of a documented band", What: fmt.Sprintf("%s signal %d wavelength %v", con, id, lam), Case: map[string]interface{}{"constellation": con, "signal": id}})
			}
			if fs, documented := docFreqMHz[con][id]; documented {
				match := false
				for _, f := range fs {
					if w := 299792458.0 / (f * 1e6); math.Abs(lam-w) <= 4*(math.Nextafter(w, 2*w)-w) {
						match = true
					}
				}
				if !match {
					r.Violate(ev.Violation{Fingerprint: "C08 WAVELENGTH of a documented signal is not c/f of its carrier", What: fmt.Sprintf("%s signal %d: wavelength %v, documented carrier %v MHz", con, id, lam, fs),
						Case: map[string]interface{}{"constellation": con, "signal": id}, Expected: fs, Actual: lam})
				}
			}
			if lam > 0 {
				for _, m7 := range []bool{false, true} {
					run(cellCase{MSM7: m7, Whole: 70, Frac: 100, FineRange: -300, FinePhase: 70000, RoughRate: -500, FineRate: 4999, Wavelength: lam, SignalID: id})
					total++
				}
				r.Outcome("wavelength-defined")
			} else {
				// undefined wavelength: only "does not panic"
				for _, m7 := range []bool{false, true} {
					k := cellCase{MSM7: m7, Whole: 70, Frac: 100, FineRange: 1, FinePhase: 1, RoughRate: 1, FineRate: 1, Wavelength: 0, SignalID: id}
					if d := c08One(&k); strings.HasPrefix(d, "PANIC") {
						fail(&k, d)
					}
					total++
				}
				r.Outcome("wavelength-undefined")
			}
		}
	}
	// (5) MSM4 and MSM7 cells encoding the same quantity give the same result
	for _, a := range anchors {
		for d4 := -(1 << 14) + 1; d4 < 1<<14; d4 += 37 {
			for _, p4 := range []int{-(1 << 21) + 1, -77, 0, 1, 99999, 1<<21 - 1} {
				s4 := sat4.New(1, a.w, a.f, slog.LevelInfo)
				c4 := sig4.New(2, s4, d4, p4, 0, false, 0, lamL1, slog.LevelInfo)
				s7 := sat7.New(1, a.w, a.f, 0, 0, slog.LevelInfo)
				c7 := sig7.New(2, s7, d4*32, p4*4, 0, false, 0, 0, lamL1, slog.LevelInfo)
				total++
				if c4.RangeInMetres() != c7.RangeInMetres() || c4.PhaseRange() != c7.PhaseRange() {
					r.Violate(ev.Violation{Fingerprint: "C08 MSM4-MSM7-disagree", What: fmt.Sprintf("same quantity, range %v vs %v, phase %v vs %v", c4.RangeInMetres(), c7.RangeInMetres(), c4.PhaseRange(), c7.PhaseRange()),
						Case: map[string]interface{}{"whole": a.w, "frac": a.f, "fine_range_msm4": d4, "fine_phase_msm4": p4}})
				}
			}
		}
	}
	// (6) the same numbers through decoded messages (ties C08 to what C04
	// decodes).  All messages are decoded FIRST and checked afterwards, so a
	// value that depends on a later decode (shared buffers) shows up.
	type held struct {
		t    int
		m    *msm7.Message
		w, f uint
		rr   int64
	}
	var decoded []held
	for i, t := range []int{1077, 1087, 1097, 1127, 1077, 1097} {
		h := &ref.MSMHeader{Type: t, Timestamp: 1000, SatMask: 1 << 63, SigMask: 1 << 30, CellMask: []bool{true}}
		w, f, rr := uint(81-7*i), uint(435+50*i), int64(-135+40*i)
		sats := []ref.MSMSat{{Whole: w, Ext: 0, Frac: f, Rate: rr}}
		sigs := []ref.MSMSig{{RangeDelta: -26835, PhaseDelta: -117960, Lock: 5, CNR: 640, RateDelta: -1170}}
		m, err := msm7.GetMessage(ref.MSMFrame(h, sats, sigs, 0), slog.LevelInfo)
		total++
		if err != nil || len(m.Signals) != 1 || len(m.Signals[0]) != 1 {
			r.Violate(ev.Violation{Fingerprint: "C08 decoded-cell-missing", What: fmt.Sprint(err), Case: map[string]interface{}{"type": t}})
			continue
		}
		decoded = append(decoded, held{t, m, w, f, rr})
	}
	for i, d := range decoded {
		c := d.m.Signals[0][0]
		k := cellCase{MSM7: true, Whole: d.w, Frac: d.f, FineRange: -26835, FinePhase: -117960, RoughRate: int(d.rr), FineRate: -1170, Wavelength: c.Wavelength, SignalID: c.ID}
		want := new(big.Rat).Mul(exactMillis(d.w, d.f, -26835, 29), ratC1000)
		if !closeTo(c.RangeInMetres(), want) {
			fail(&k, fmt.Sprintf("RANGE of decoded message %d of %d (type %d) differs from the formula after the later messages were decoded", i+1, len(decoded), d.t))
		}
		wantRate := new(big.Rat).Add(new(big.Rat).SetInt64(d.rr), big.NewRat(-1170, 10000))
		if !closeTo(c.PhaseRangeRate(), wantRate) {
			fail(&k, fmt.Sprintf("RATE of decoded message %d of %d (type %d) differs from the formula after the later messages were decoded", i+1, len(decoded), d.t))
		}
		if c.Wavelength > 0 {
			run(k)
		}
	}
	// (6b) every value of each fine field and of the rough rate through DECODED
	// cells (the sweeps above build cells through the constructors): a one-cell
	// message is encoded, decoded by the message package, and the numbers of the
	// decoded cell must equal those of a cell constructed from the same fields,
	// which the sweeps above hold to the exact formula
	{
		failD := func(k *cellCase, d string, frame []byte) {
			r.Violate(ev.Violation{Fingerprint: "C08 " + firstWords(d, 1) + map[bool]string{true: " msm7", false: " msm4"}[k.MSM7], What: d,
				Case: map[string]interface{}{"fields": k, "frame": ev.FullHex(frame)}})
		}
		type dsweep struct {
			m7     bool
			field  string
			lo, hi int
			step   int
		}
		st := func(quick int) int {
			if thorough {
				return 1
			}
			return quick
		}
		sweeps := []dsweep{
			{true, "finerate", -(1 << 14), 1<<14 - 1, 1}, {true, "roughrate", -(1 << 13), 1<<13 - 1, 1},
			{true, "finerange", -(1 << 19), 1<<19 - 1, st(15)}, {true, "finephase", -(1 << 23), 1<<23 - 1, st(61)},
			{false, "finerange", -(1 << 14), 1<<14 - 1, 1}, {false, "finephase", -(1 << 21), 1<<21 - 1, st(15)},
		}
		type dchunk struct {
			sw     dsweep
			lo, hi int
		}
		var dchunks []dchunk
		for _, sw := range sweeps {
			span := 1 << 16 * sw.step
			for lo := sw.lo; lo <= sw.hi; lo += span {
				hi := lo + span - 1
				if hi > sw.hi {
					hi = sw.hi
				}
				dchunks = append(dchunks, dchunk{sw, lo, hi})
			}
		}
		parallelFor(len(dchunks), func(i int) {
			c := dchunks[i]
			var n int64
			for v := c.lo; v <= c.hi; v += c.sw.step {
				k := cellCase{MSM7: c.sw.m7, Whole: 70, Frac: 100, FineRange: 5, FinePhase: -5, RoughRate: 7, FineRate: -7, SignalID: 2}
				switch c.sw.field {
				case "finerange":
					k.FineRange = v
				case "finephase":
					k.FinePhase = v
				case "roughrate":
					k.RoughRate = v
				case "finerate":
					k.FineRate = v
				}
				t := 1074
				if k.MSM7 {
					t = 1077
				}
				h := &ref.MSMHeader{Type: t, Timestamp: 1000, SatMask: 1 << 63, SigMask: 1 << 30, CellMask: []bool{true}}
				frame := ref.MSMFrame(h, []ref.MSMSat{{Whole: k.Whole, Frac: k.Frac, Rate: int64(k.RoughRate)}},
					[]ref.MSMSig{{RangeDelta: int64(k.FineRange), PhaseDelta: int64(k.FinePhase), Lock: 1, CNR: 40, RateDelta: int64(k.FineRate)}}, 0)
				var got, want [4]float64
				var derr error
				cl, site, pn := guard(func() {
					if k.MSM7 {
						m, err := msm7.GetMessage(frame, slog.LevelInfo)
						if err != nil || len(m.Signals) != 1 || len(m.Signals[0]) != 1 {
							derr = fmt.Errorf("no cell: %v", err)
							return
						}
						d := m.Signals[0][0]
						k.Wavelength = d.Wavelength
						got = [4]float64{d.RangeInMetres(), d.PhaseRange(), d.PhaseRangeRate(), d.PhaseRangeRateDoppler()}
						cs := sat7.New(1, k.Whole, k.Frac, 0, k.RoughRate, slog.LevelInfo)
						cc := sig7.New(k.SignalID, cs, k.FineRange, k.FinePhase, 1, false, 40, k.FineRate, k.Wavelength, slog.LevelInfo)
						want = [4]float64{cc.RangeInMetres(), cc.PhaseRange(), cc.PhaseRangeRate(), cc.PhaseRangeRateDoppler()}
					} else {
						m, err := msm4.GetMessage(frame, slog.LevelInfo)
						if err != nil || len(m.Signals) != 1 || len(m.Signals[0]) != 1 {
							derr = fmt.Errorf("no cell: %v", err)
							return
						}
						d := m.Signals[0][0]
						k.Wavelength = d.Wavelength
						got = [4]float64{d.RangeInMetres(), d.PhaseRange()}
						cs := sat4.New(1, k.Whole, k.Frac, slog.LevelInfo)
						cc := sig4.New(k.SignalID, cs, k.FineRange, k.FinePhase, 1, false, 40, k.Wavelength, slog.LevelInfo)
						want = [4]float64{cc.RangeInMetres(), cc.PhaseRange()}
					}
				})
				n++
				switch {
				case pn:
					failD(&k, "PANIC-decoding-a-one-cell-message "+cl+"@"+site, frame)
				case derr != nil:
					failD(&k, "decoded-cell-missing: "+derr.Error(), frame)
				case got != want:
					names := []string{"RANGE", "PHASE", "RATE", "DOPPLER"}
					for q := range got {
						if got[q] != want[q] {
							failD(&k, fmt.Sprintf("decoded-cell-differs-from-constructed-cell: %s of the decoded cell %.17g, of a cell constructed from the same fields %.17g (field %s = %d)", names[q], got[q], want[q], c.sw.field, v), frame)
							break
						}
					}
				}
			}
			r.Count(n, 0, n, n)
		})
	}
	// (7) through the handler (GetMessage + Analyse, what display uses): pairs of
	// messages of the same type, length and CRC value whose fields differ - the
	// numbers reported for the second must come from its own fields
	for _, t := range []int{1077, 1087, 1097, 1127} {
		hd := handler.New(time.Date(2023, 5, 10, 12, 0, 0, 0, time.UTC), slog.LevelInfo)
		for v := 0; v < 3; v++ {
			h := &ref.MSMHeader{Type: t, Timestamp: 1000, SatMask: 1 << 63, SigMask: 1 << 30, CellMask: []bool{true}}
			w, f, rr := uint(70+9*v), uint(100+300*v), int64(-100+90*v)
			fr, fp, frt := int64(-26835+7000*v), int64(-117960+50000*v), int64(-1170+800*v)
			p, _ := ref.EncodeMSM(h, []ref.MSMSat{{Whole: w, Ext: 0, Frac: f, Rate: rr}}, []ref.MSMSig{{RangeDelta: fr, PhaseDelta: fp, Lock: 5, CNR: 640, RateDelta: frt}}, 3)
			frame := ref.PayloadFrameWithCRC(p, 0x313131)
			total++
			m, _ := hd.GetMessage(frame)
			if m == nil {
				r.Violate(ev.Violation{Fingerprint: "C08 decoded-cell-missing", What: "nil message from the handler", Case: map[string]interface{}{"type": t}})
				continue
			}
			handler.Analyse(m)
			mm, ok := m.Readable.(*msm7.Message)
			if !ok || mm == nil || len(mm.Signals) != 1 || len(mm.Signals[0]) != 1 {
				r.Violate(ev.Violation{Fingerprint: "C08 decoded-cell-missing", What: "handler path: " + m.ErrorMessage, Case: map[string]interface{}{"type": t, "frame": ev.FullHex(frame)}})
				continue
			}
			c := mm.Signals[0][0]
			k := cellCase{MSM7: true, Whole: w, Frac: f, FineRange: int(fr), FinePhase: int(fp), RoughRate: int(rr), FineRate: int(frt), Wavelength: c.Wavelength, SignalID: c.ID}
			want := new(big.Rat).Mul(exactMillis(w, f, int(fr), 29), ratC1000)
			if !closeTo(c.RangeInMetres(), want) {
				fail(&k, fmt.Sprintf("RANGE reported through the handler for message %d of 3 with equal type, length and CRC (type %d) is not that of its own fields", v+1, t))
			}
			wantRate := new(big.Rat).Add(new(big.Rat).SetInt64(rr), big.NewRat(frt, 10000))
			if !closeTo(c.PhaseRangeRate(), wantRate) {
				fail(&k, fmt.Sprintf("RATE reported through the handler for message %d of 3 with equal type, length and CRC (type %d) is not that of its own fields", v+1, t))
			}
		}
	}
	r.Count(total, 0, total, total)
	r.DistinctN += total
	r.Sample(cellCase{MSM7: true, Whole: 81, Frac: 435, FineRange: -26835, FinePhase: -117960, RoughRate: -135, FineRate: -1170, Wavelength: lamL1, SignalID: 2})
	r.Sample(cellCase{MSM7: false, Whole: 255, Frac: 0, FineRange: 0, FinePhase: 0, Wavelength: lamL1, SignalID: 2})
}
