package props

import (
	"encoding/json"
	"fmt"
	"log/slog"
	"math/bits"

	"verif/internal/ev"
	"verif/ref"

	"github.com/goblimey/go-ntrip/rtcm/handler"
	"github.com/goblimey/go-ntrip/rtcm/header"
	msm4 "github.com/goblimey/go-ntrip/rtcm/type_msm4/message"
	msm7 "github.com/goblimey/go-ntrip/rtcm/type_msm7/message"
)

func init() {
	Registry["C04"] = C04
	Replayers["msm-frame"] = func(c json.RawMessage) (bool, string) {
		var k struct {
			Frame string  `json:"frame"`
			Spec  msmSpec `json:"spec"`
		}
		json.Unmarshal(c, &k)
		h, sats, sigs := k.Spec.build()
		frame := ref.MSMFrame(h, sats, sigs, k.Spec.Pad)
		d := decodeAndCompare(frame, h, sats, sigs)
		return d != "", "decode vs encoder input: " + d
	}
}

// msmSpec is a compact, replayable description of one generated message.
type msmSpec struct {
	Type     int    `json:"type"`
	SatMask  uint64 `json:"sat_mask"`
	SigMask  uint32 `json:"sig_mask"`
	CellBits string `json:"cell_mask"` // "1011..." satellite-major
	Values   string `json:"values"`    // zero|max|invalid|minus1|alt|counter|lastzero|firstzero|tailzero
	Multiple bool   `json:"multiple"`
	Pad      int    `json:"pad"`
	Scalars  string `json:"scalars"` // zero|max|alt
}

func (s msmSpec) build() (*ref.MSMHeader, []ref.MSMSat, []ref.MSMSig) {
	h := &ref.MSMHeader{Type: s.Type, SatMask: s.SatMask, SigMask: s.SigMask, Multiple: s.Multiple}
	switch s.Scalars {
	case "max":
		h.Station, h.Timestamp, h.IODS, h.SessTime, h.ClkSteer, h.ExtClk, h.DivFree, h.Smoothing = 4095, 1<<30-1, 7, 127, 3, 3, true, 7
	case "alt":
		h.Station, h.Timestamp, h.IODS, h.SessTime, h.ClkSteer, h.ExtClk, h.DivFree, h.Smoothing = 0xAAA, 0x15555555, 5, 0x55, 2, 1, false, 5
	default:
		h.Timestamp = 1000
	}
	for _, c := range s.CellBits {
		h.CellMask = append(h.CellMask, c == '1')
	}
	m7 := ref.IsMSM7(s.Type)
	nsat, ncell := h.NSat(), h.NCell()
	sats := make([]ref.MSMSat, nsat)
	sigs := make([]ref.MSMSig, ncell)
	rd, pd, lk, cn := 15, 22, 4, 6
	if m7 {
		rd, pd, lk, cn = 20, 24, 10, 10
	}
	smax := func(n int) int64 { return 1<<(uint(n)-1) - 1 }
	smin := func(n int) int64 { return -(1 << (uint(n) - 1)) }
	for i := range sats {
		switch s.Values {
		case "zero":
		case "max":
			sats[i] = ref.MSMSat{Whole: 254, Ext: 15, Frac: 1023, Rate: smax(14)}
		case "invalid":
			sats[i] = ref.MSMSat{Whole: 255, Ext: 15, Frac: 1023, Rate: smin(14)}
		case "minus1":
			sats[i] = ref.MSMSat{Whole: 1, Ext: 1, Frac: 1, Rate: -1}
		case "alt":
			sats[i] = ref.MSMSat{Whole: 0xAA, Ext: 0x5, Frac: 0x2AA, Rate: -0x1556}
		default: // counter
			sats[i] = ref.MSMSat{Whole: uint(i+1) % 255, Ext: uint(i+3) % 16, Frac: uint(7*i+5) % 1024, Rate: int64(i*37+1) - 4000}
		}
	}
	for i := range sigs {
		switch s.Values {
		case "zero":
		case "max":
			sigs[i] = ref.MSMSig{RangeDelta: smax(rd), PhaseDelta: smax(pd), Lock: 1<<uint(lk) - 1, Half: true, CNR: 1<<uint(cn) - 1, RateDelta: smax(15)}
		case "invalid":
			sigs[i] = ref.MSMSig{RangeDelta: smin(rd), PhaseDelta: smin(pd), Lock: 0, Half: false, CNR: 0, RateDelta: smin(15)}
		case "minus1":
			sigs[i] = ref.MSMSig{RangeDelta: -1, PhaseDelta: -1, Lock: 1, Half: true, CNR: 1, RateDelta: -1}
		case "alt":
			sigs[i] = ref.MSMSig{RangeDelta: -0x2AAB, PhaseDelta: 0x155555, Lock: 0x5, Half: i%2 == 0, CNR: 0x2A, RateDelta: 0x2AAA}
		case "lastzero", "firstzero", "tailzero":
			// counter values, but the last / first cell all zero, or the fields that
			// are stored last (CNR and rate delta) zero in every cell
			sigs[i] = ref.MSMSig{RangeDelta: int64(i*101+1) - 3000, PhaseDelta: int64(i*1009+7) - 50000, Lock: uint(i+1) % (1 << uint(lk)),
				Half: i%3 == 0, CNR: uint(i*5+2) % (1 << uint(cn)), RateDelta: int64(i*53+3) - 2000}
			if (s.Values == "lastzero" && i == len(sigs)-1) || (s.Values == "firstzero" && i == 0) {
				sigs[i] = ref.MSMSig{}
			}
			if s.Values == "tailzero" {
				sigs[i].CNR, sigs[i].RateDelta, sigs[i].Half = 0, 0, false
				if i >= len(sigs)-2 {
					sigs[i].Lock = 0
				}
			}
		default:
			sigs[i] = ref.MSMSig{RangeDelta: int64(i*101+1) - 3000, PhaseDelta: int64(i*1009+7) - 50000, Lock: uint(i+1) % (1 << uint(lk)),
				Half: i%3 == 0, CNR: uint(i*5+2) % (1 << uint(cn)), RateDelta: int64(i*53+3) - 2000}
		}
	}
	return h, sats, sigs
}

// decodeAndCompare decodes frame with the right decoder and compares every
// exported field with the encoder input; "" means identical.
func decodeAndCompare(frame []byte, h *ref.MSMHeader, sats []ref.MSMSat, sigs []ref.MSMSig) string {
	msg, d := decodeMSM(frame, h.Type)
	if d != "" {
		return d
	}
	return compareMSM(msg, h, sats, sigs)
}

// decodeMSM decodes a frame with the decoder of its family and returns the
// message object (*msm4.Message or *msm7.Message).
func decodeMSM(frame []byte, msgType int) (msg interface{}, fault string) {
	var err error
	cl, site, p := guard(func() {
		if ref.IsMSM7(msgType) {
			var m *msm7.Message
			m, err = msm7.GetMessage(frame, slog.LevelInfo)
			if m != nil {
				msg = m
			}
		} else {
			var m *msm4.Message
			m, err = msm4.GetMessage(frame, slog.LevelInfo)
			if m != nil {
				msg = m
			}
		}
	})
	if p {
		return nil, "PANIC " + cl + "@" + site
	}
	if err != nil || msg == nil {
		return nil, "REJECTED " + fmt.Sprint(err)
	}
	return msg, ""
}

// compareMSM reads every exported field of a decoded message (at the time of
// the call, so it can be repeated later) and compares it with the encoder input.
func compareMSM(msg interface{}, h *ref.MSMHeader, sats []ref.MSMSat, sigs []ref.MSMSig) (result string) {
	defer func() {
		if p := recover(); p != nil {
			result = "PANIC while reading the decoded message: " + fmt.Sprint(p)
		}
	}()
	m7 := ref.IsMSM7(h.Type)
	var hd *header.Header
	type satv struct {
		id, whole, ext, frac uint
		rate                 int
	}
	type sigv struct {
		satID, id uint
		rd, pd    int
		lock, cnr uint
		half      bool
		rated     int
		satPtrID  uint
	}
	var gotSats []satv
	var gotSigs [][]sigv
	switch m := msg.(type) {
	case *msm7.Message:
		hd = m.Header
		for _, s := range m.Satellites {
			gotSats = append(gotSats, satv{s.ID, s.RangeWholeMillis, s.ExtendedInfo, s.RangeFractionalMillis, s.PhaseRangeRate})
		}
		for _, row := range m.Signals {
			var r []sigv
			for _, c := range row {
				v := sigv{id: c.ID, rd: c.RangeDelta, pd: c.PhaseRangeDelta, lock: c.LockTimeIndicator, cnr: c.CarrierToNoiseRatio, half: c.HalfCycleAmbiguity, rated: c.PhaseRangeRateDelta}
				if c.Satellite != nil {
					v.satPtrID = c.Satellite.ID
				}
				r = append(r, v)
			}
			gotSigs = append(gotSigs, r)
		}
	case *msm4.Message:
		hd = m.Header
		for _, s := range m.Satellites {
			gotSats = append(gotSats, satv{s.ID, s.RangeWholeMillis, 0, s.RangeFractionalMillis, 0})
		}
		for _, row := range m.Signals {
			var r []sigv
			for _, c := range row {
				v := sigv{id: c.ID, rd: c.RangeDelta, pd: c.PhaseRangeDelta, lock: c.LockTimeIndicator, cnr: c.CarrierToNoiseRatio, half: c.HalfCycleAmbiguity}
				if c.Satellite != nil {
					v.satPtrID = c.Satellite.ID
				}
				r = append(r, v)
			}
			gotSigs = append(gotSigs, r)
		}
	default:
		return "REJECTED no message"
	}
	// header
	ncell := h.NCell()
	var cm uint64
	for _, c := range h.CellMask {
		cm <<= 1
		if c {
			cm |= 1
		}
	}
	chk := []struct {
		name     string
		got, exp interface{}
	}{
		{"MessageType", hd.MessageType, h.Type}, {"StationID", hd.StationID, h.Station}, {"Timestamp", hd.Timestamp, h.Timestamp},
		{"MultipleMessage", hd.MultipleMessage, h.Multiple}, {"IssueOfDataStation", hd.IssueOfDataStation, h.IODS},
		{"SessionTransmissionTime", hd.SessionTransmissionTime, h.SessTime}, {"ClockSteeringIndicator", hd.ClockSteeringIndicator, h.ClkSteer},
		{"ExternalClockSteeringIndicator", hd.ExternalClockSteeringIndicator, h.ExtClk}, {"GNSSDivergenceFreeSmoothingIndicator", hd.GNSSDivergenceFreeSmoothingIndicator, h.DivFree},
		{"GNSSSmoothingInterval", hd.GNSSSmoothingInterval, h.Smoothing}, {"SatelliteMask", hd.SatelliteMask, h.SatMask}, {"SignalMask", hd.SignalMask, h.SigMask},
		{"CellMask", hd.CellMask, cm}, {"NumSignalCells", hd.NumSignalCells, ncell},
		{"Satellites", fmt.Sprint(hd.Satellites), fmt.Sprint(append([]uint{}, h.SatIDs()...))}, {"Signals", fmt.Sprint(hd.Signals), fmt.Sprint(append([]uint{}, h.SigIDs()...))},
	}
	for _, c := range chk {
		if fmt.Sprint(c.got) != fmt.Sprint(c.exp) {
			return fmt.Sprintf("HEADER %s: got %v want %v", c.name, c.got, c.exp)
		}
	}
	nsig := h.NSig()
	if len(hd.Cells) != h.NSat() {
		return fmt.Sprintf("HEADER Cells has %d rows, want %d", len(hd.Cells), h.NSat())
	}
	for i := 0; i < h.NSat(); i++ {
		if len(hd.Cells[i]) != nsig {
			return fmt.Sprintf("HEADER Cells row %d has %d columns, want %d", i, len(hd.Cells[i]), nsig)
		}
		for j := 0; j < nsig; j++ {
			if hd.Cells[i][j] != h.CellMask[i*nsig+j] {
				return fmt.Sprintf("HEADER Cells[%d][%d]", i, j)
			}
		}
	}
	// satellites
	satIDs, sigIDs := h.SatIDs(), h.SigIDs()
	if len(gotSats) != len(sats) {
		return fmt.Sprintf("SATCOUNT got %d want %d", len(gotSats), len(sats))
	}
	for i, s := range sats {
		w := satv{satIDs[i], s.Whole, 0, s.Frac, 0}
		if m7 {
			w.ext, w.rate = s.Ext, int(s.Rate)
		}
		if gotSats[i] != w {
			return fmt.Sprintf("SATCELL %d: got %+v want %+v", i, gotSats[i], w)
		}
	}
	// signals, attached to the right satellite and signal id
	if len(gotSigs) != len(sats) {
		return fmt.Sprintf("SIGROWS got %d want %d", len(gotSigs), len(sats))
	}
	k := 0
	for i := range sats {
		var want []sigv
		for j := 0; j < nsig; j++ {
			if h.CellMask[i*nsig+j] {
				s := sigs[k]
				k++
				v := sigv{id: sigIDs[j], rd: int(s.RangeDelta), pd: int(s.PhaseDelta), lock: s.Lock, cnr: s.CNR, half: s.Half, satPtrID: satIDs[i]}
				if m7 {
					v.rated = int(s.RateDelta)
				}
				want = append(want, v)
			}
		}
		if len(gotSigs[i]) != len(want) {
			return fmt.Sprintf("SIGCOUNT row %d (satellite %d): got %d cells want %d", i, satIDs[i], len(gotSigs[i]), len(want))
		}
		for c := range want {
			if gotSigs[i][c] != want[c] {
				return fmt.Sprintf("SIGCELL row %d cell %d: got %+v want %+v", i, c, gotSigs[i][c], want[c])
			}
		}
	}
	return ""
}

// chunkCount recomputes the cell count that "strip all-zero cell-sized chunks
// from everything after the satellite data" would infer — used only to
// fingerprint the kind of a mis-decode, never as the oracle.
func chunkCount(frame []byte, startBit, bitsPerCell int) int {
	n := (len(frame)*8 - startBit) / bitsPerCell
	for n > 0 {
		if ref.GetU(frame, startBit+(n-1)*bitsPerCell, min(bitsPerCell, 64)) != 0 || (bitsPerCell > 64 && ref.GetU(frame, startBit+(n-1)*bitsPerCell+64, bitsPerCell-64) != 0) {
			break
		}
		n--
	}
	return n
}

func c04Fingerprint(d string, frame []byte, h *ref.MSMHeader) string {
	kind := firstWords(d, 1)
	bpc, satBits := 48, 18
	if ref.IsMSM7(h.Type) {
		bpc, satBits = 80, 36
	}
	start := 24 + 169 + len(h.CellMask) + h.NSat()*satBits
	if kind == "SIGCELL" || kind == "SIGCOUNT" || kind == "REJECTED" {
		inferred := chunkCount(frame, start, bpc)
		switch {
		case inferred > h.NCell():
			return "C04 cell-count: inferred!=popcount(cellmask) kind=overcount-padding (" + kind + ")"
		case inferred < h.NCell():
			return "C04 cell-count: inferred!=popcount(cellmask) kind=undercount-zero-tail (" + kind + ")"
		}
	}
	return "C04 " + kind + " with correct cell count"
}

func maskWithBits(total int, positions []int) uint64 {
	var m uint64
	for _, p := range positions { // 1-based ids
		m |= 1 << uint(total-p)
	}
	return m
}

// C04: MSM4/MSM7 round trip over a complete product of shapes, masks, values, flags and paddings.
func C04(r *ev.Run) {
	thorough := r.Tier == "thorough"
	r.Rule = "complete product of: 14 MSM4/MSM7 types x (satellite,signal) mask shapes {0x0,1x1,1x2,2x2,3x2,1x32,2x32,64x1,32x2,8x8, sparse/last-position ids, and every n x m with n<=4, m<=8, n*m<=16 so that the signal data ends at every bit alignment} x cell masks {all 2^n for n<=6 mask bits; otherwise full, empty, first only, last only, checkerboard, one per row} x field values {all zero, all maximum, all 'invalid' minimum, -1, alternating bits, distinct counter per cell, counter with an all-zero last cell, with an all-zero first cell, with the last-stored fields zero} x header scalars {zero, max, alternating} x multiple-message flag {0,1} (no-cell messages only with 0) x trailing zero padding bytes {0..12,16,31,32,33,64, maximum that fits} (quick: 0..10 and a reduced shape list); every exported header, satellite and signal field compared with the encoder input, including the satellite/signal id each cell is attached to. Non-trivial = has at least one signal cell; distinct = distinct frames"
	r.Assumptions = []string{"the reference encoder in /verif/ref/msm.go (field-major arrays, two's complement, zero padding) defines 'well-formed'", "decoders are called directly (type_msm4/type_msm7 message.GetMessage) and, for a subset, through handler.GetMessage+Analyse"}
	type shape struct {
		name string
		sat  uint64
		sig  uint32
	}
	first := func(n int) []int {
		var p []int
		for i := 1; i <= n; i++ {
			p = append(p, i)
		}
		return p
	}
	shapes := []shape{
		{"0x0", 0, 0},
		{"1x1", maskWithBits(64, []int{1}), uint32(maskWithBits(32, []int{1}))},
		{"1x1-last", maskWithBits(64, []int{64}), uint32(maskWithBits(32, []int{32}))},
		{"1x2", maskWithBits(64, []int{5}), uint32(maskWithBits(32, []int{2, 15}))},
		{"2x2", maskWithBits(64, []int{3, 9}), uint32(maskWithBits(32, []int{2, 16}))},
		{"3x2", maskWithBits(64, []int{1, 33, 64}), uint32(maskWithBits(32, []int{1, 32}))},
		{"8x8", maskWithBits(64, first(8)), uint32(maskWithBits(32, []int{2, 3, 4, 8, 9, 15, 22, 30}))},
		{"64x1", ^uint64(0), uint32(maskWithBits(32, []int{2}))},
		{"32x2", 0xAAAAAAAAAAAAAAAA, uint32(maskWithBits(32, []int{2, 8}))},
		{"1x32", maskWithBits(64, []int{17}), ^uint32(0)},
		{"2x32", maskWithBits(64, []int{1, 2}), ^uint32(0)},
	}
	if !thorough {
		shapes = []shape{shapes[0], shapes[1], shapes[3], shapes[4], shapes[5], shapes[6], shapes[7], shapes[9]}
	}
	// every bit alignment of the end of the signal data (the header is 169 bits,
	// satellite cells 18/36 bits, signal cells 48/80 bits): 1..4 satellites x
	// 1..8 signal types reach all residues mod 8 for both message families
	for ns := 1; ns <= 4; ns++ {
		for ng := 1; ng <= 8; ng++ {
			if ns*ng > 16 || (ns == 1 && ng <= 2) || (ns == 2 && ng == 2) {
				continue
			}
			if !thorough && ns > 2 && ng > 4 {
				continue
			}
			shapes = append(shapes, shape{fmt.Sprintf("%dx%d", ns, ng), ^uint64(0) << uint(64-ns), (^uint32(0) << uint(32-ng)) >> 1})
		}
	}
	types := []int{1074, 1084, 1094, 1104, 1114, 1124, 1134, 1077, 1087, 1097, 1107, 1117, 1127, 1137}
	values := []string{"zero", "max", "invalid", "minus1", "alt", "counter", "lastzero", "firstzero", "tailzero"}
	pads := []int{0, 1, 2, 3, 4, 5, 6, 7, 8, 9, 10}
	if thorough {
		pads = append(pads, 11, 12, 16, 31, 32, 33, 64, -1) // -1 = maximum that fits
	}
	type job struct {
		t  int
		sh shape
		cm string
	}
	var jobs []job
	for _, t := range types {
		for _, sh := range shapes {
			n := bits.OnesCount64(sh.sat) * bits.OnesCount32(sh.sig)
			nsig := bits.OnesCount32(sh.sig)
			var masks []string
			if n == 0 {
				masks = []string{""}
			} else if n <= 6 {
				for v := 0; v < 1<<uint(n); v++ {
					masks = append(masks, fmt.Sprintf("%0*b", n, v))
				}
			} else {
				mk := func(f func(i int) bool) string {
					b := make([]byte, n)
					for i := range b {
						b[i] = '0'
						if f(i) {
							b[i] = '1'
						}
					}
					return string(b)
				}
				masks = []string{mk(func(int) bool { return true }), mk(func(int) bool { return false }), mk(func(i int) bool { return i == 0 }),
					mk(func(i int) bool { return i == n-1 }), mk(func(i int) bool { return (i/nsig+i%nsig)%2 == 0 }), mk(func(i int) bool { return i%nsig == (i/nsig)%nsig })}
			}
			for _, cm := range masks {
				jobs = append(jobs, job{t, sh, cm})
			}
		}
	}
	parallelFor(len(jobs), func(ji int) {
		jb := jobs[ji]
		var n int64
		var prevMsg interface{}
		var prevH *ref.MSMHeader
		var prevSats []ref.MSMSat
		var prevSigs []ref.MSMSig
		var prevSpec msmSpec
		for _, val := range values {
			for si, sc := range []string{"zero", "max", "alt"} {
				if si > 0 && val != "counter" {
					continue // scalars vary with one value assignment only
				}
				for _, mult := range []bool{false, true} {
					spec := msmSpec{Type: jb.t, SatMask: jb.sh.sat, SigMask: jb.sh.sig, CellBits: jb.cm, Values: val, Multiple: mult, Scalars: sc}
					h, sats, sigs := spec.build()
					if mult && h.NCell() == 0 {
						continue
					}
					base, _ := ref.EncodeMSM(h, sats, sigs, 0)
					for _, pad := range pads {
						if pad < 0 {
							pad = 1023 - len(base)
						}
						if len(base)+pad > 1023 {
							continue
						}
						spec.Pad = pad
						frame := ref.MSMFrame(h, sats, sigs, pad)
						msgNow, d := decodeMSM(frame, h.Type)
						if d == "" {
							d = compareMSM(msgNow, h, sats, sigs)
						}
						// the message decoded just before must be untouched by this decode
						if prevMsg != nil {
							if dp := compareMSM(prevMsg, prevH, prevSats, prevSigs); dp != "" {
								r.Violate(ev.Violation{Fingerprint: "C04 earlier-decoded-message-changed-by-a-later-decode", What: "after decoding another message: " + dp,
									Case: map[string]interface{}{"spec": prevSpec, "then_decoded": spec}, ReplayKind: "msm-frame"})
							}
						}
						if d == "" {
							prevMsg, prevH, prevSats, prevSigs, prevSpec = msgNow, h, sats, sigs, spec
						} else {
							prevMsg = nil
						}
						n++
						if h.NCell() > 0 {
							r.Distinct(string(frame))
						}
						if d != "" {
							r.Violate(ev.Violation{Fingerprint: c04Fingerprint(d, frame, h), What: d,
								Case: map[string]interface{}{"spec": spec, "frame": ev.Hex(frame), "shape": jb.sh.name}, ReplayKind: "msm-frame"})
							r.Outcome("mismatch")
						} else {
							r.Outcome("roundtrip-ok")
						}
						// through the handler for legal timestamps
						if sc == "zero" && pad <= 1 && val == "counter" {
							hnd := handler.New(frameStart, slog.LevelInfo)
							cl, site, pn := guard(func() {
								m, _ := hnd.GetMessage(frame)
								if m == nil || m.MessageType != jb.t {
									r.Violate(ev.Violation{Fingerprint: "C04 handler-did-not-type-the-frame", What: "handler.GetMessage lost a well-formed MSM", Case: map[string]interface{}{"spec": spec}, ReplayKind: "msm-frame"})
								} else {
									handler.Analyse(m)
									if m.Readable == nil && d == "" {
										r.Violate(ev.Violation{Fingerprint: "C04 handler-analyse-rejected", What: "Analyse rejected: " + m.ErrorMessage, Case: map[string]interface{}{"spec": spec}, ReplayKind: "msm-frame"})
									}
								}
							})
							if pn {
								r.Violate(ev.Violation{Fingerprint: "C04 PANIC via handler " + cl + "@" + site, What: "well-formed MSM panics through handler.GetMessage/Analyse", Case: map[string]interface{}{"spec": spec}, ReplayKind: "msm-frame"})
							}
							n++
						}
					}
				}
			}
		}
		r.Count(n, 0, n, n)
		if ji == 3 {
			spec := msmSpec{Type: jb.t, SatMask: jb.sh.sat, SigMask: jb.sh.sig, CellBits: jb.cm, Values: "counter", Scalars: "zero", Pad: 2}
			h, sats, sigs := spec.build()
			r.Sample(map[string]interface{}{"spec": spec, "frame": ev.Hex(ref.MSMFrame(h, sats, sigs, 2))})
		}
	})
	r.States = 0
}
