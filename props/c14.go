package props

import (
	"encoding/json"
	"fmt"
	"math/big"
	"strings"

	"verif/internal/ev"
	"verif/ref"

	"github.com/goblimey/go-ntrip/rtcm/utils"
)

func init() {
	Registry["C14"] = C14
	Replayers["c14-case"] = replayC14
	Replayers["c14-big"] = replayC14Big
	Replayers["c14-spare"] = func(c json.RawMessage) (bool, string) {
		var k c14Case
		json.Unmarshal(c, &k)
		var buf []byte
		fmt.Sscanf(k.Buf, "%x", &buf)
		want := c14Ref(buf, k.Pos, k.Width, k.Signed)
		for _, spare := range []int{1, 2, 3, 4, 5, 8, 9} {
			for _, fillB := range []byte{0x00, 0xFF} {
				big := make([]byte, len(buf)+spare)
				copy(big, buf)
				for i := len(buf); i < len(big); i++ {
					big[i] = fillB
				}
				got, p := c14Eval(big[:len(buf)], k.Pos, k.Width, k.Signed)
				if p != "" || got.Cmp(want) != 0 {
					return true, fmt.Sprintf("spare %d fill %02x: got %v %s want %v", spare, fillB, got, p, want)
				}
			}
		}
		return false, "independent of the spare capacity"
	}
	Replayers["c14-fresh"] = func(c json.RawMessage) (bool, string) {
		var k c14Case
		json.Unmarshal(c, &k)
		for i, o := range c14FreshOps() {
			if o.pos == k.Pos && o.width == k.Width && o.signed == k.Signed {
				o2 := c14FreshOps()[(i+37)%len(c14FreshOps())]
				want := c14Ref(c14FreshBuf, o.pos, o.width, o.signed).String() + " " + c14Ref(c14FreshBuf, o2.pos, o2.width, o2.signed).String()
				got, fault := runFresh("C14", i)
				return fault != "" || got != want, fmt.Sprintf("got %q want %q %s", got, want, fault)
			}
		}
		return false, "operation not in the table"
	}
}

type c14Case struct {
	Buf    string `json:"buf"`
	Pos    int    `json:"pos"`
	Width  int    `json:"width"`
	Signed bool   `json:"signed"`
}

func c14Eval(buf []byte, pos, width int, signed bool) (got *big.Int, panicked string) {
	cl, site, p := guard(func() {
		if signed {
			got = big.NewInt(utils.GetBitsAsInt64(buf, uint(pos), uint(width)))
		} else {
			got = new(big.Int).SetUint64(utils.GetBitsAsUint64(buf, uint(pos), uint(width)))
		}
	})
	if p {
		return nil, cl + "@" + site
	}
	return got, ""
}

func c14Ref(buf []byte, pos, width int, signed bool) *big.Int {
	bits := ref.BitsOf(buf)
	if signed {
		return ref.SliceS(bits, pos, width)
	}
	return ref.SliceU(bits, pos, width)
}

func replayC14(c json.RawMessage) (bool, string) {
	var k c14Case
	json.Unmarshal(c, &k)
	var buf []byte
	fmt.Sscanf(k.Buf, "%x", &buf)
	got, p := c14Eval(buf, k.Pos, k.Width, k.Signed)
	want := c14Ref(buf, k.Pos, k.Width, k.Signed)
	if p != "" {
		return true, "panic " + p
	}
	return got.Cmp(want) != 0, fmt.Sprintf("got %v want %v", got, want)
}

// E3: fields far from the start of a large buffer.  The buffer is boundary+16
// bytes of a position-dependent fill (so bytes 65536 apart, 2^24 apart ... differ)
// or its complement; the reference looks only at the window round the field.
type c14Big struct {
	Boundary int  `json:"boundary_bytes"`
	Invert   bool `json:"fill_inverted"`
	Pos      int  `json:"pos"`
	Width    int  `json:"width"`
	Signed   bool `json:"signed"`
}

func c14BigBuf(boundary int, invert bool) []byte {
	b := make([]byte, boundary+16)
	for i := range b {
		v := byte(i*131) ^ byte(i>>8)*29 ^ byte(i>>16)*71 ^ byte(i>>24)*113 ^ byte(i>>13)
		if invert {
			v = ^v
		}
		b[i] = v
	}
	return b
}

// c14BigCheck compares one extraction with the reference applied to the few
// bytes that hold the field.
func c14BigCheck(buf []byte, k c14Big) (bad bool, got, want string) {
	g, p := c14Eval(buf, k.Pos, k.Width, k.Signed)
	first := k.Pos / 8
	last := (k.Pos + k.Width - 1) / 8
	w := c14Ref(buf[first:last+1], k.Pos-8*first, k.Width, k.Signed)
	if p != "" {
		return true, "panic " + p, w.String()
	}
	return g.Cmp(w) != 0, g.String(), w.String()
}

func replayC14Big(c json.RawMessage) (bool, string) {
	var k c14Big
	json.Unmarshal(c, &k)
	bad, got, want := c14BigCheck(c14BigBuf(k.Boundary, k.Invert), k)
	return bad, fmt.Sprintf("got %v want %v", got, want)
}

// E4: each extraction as the first call of a fresh process.
type c14Op struct {
	pos, width int
	signed     bool
}

var c14FreshBuf = []byte{0x00, 0xFF, 0xFE, 0x80, 0x01, 0x7F, 0xC3, 0xA5, 0x5A, 0x81, 0xFF, 0x00}

func c14FreshOps() []c14Op {
	var ops []c14Op
	for _, pos := range []int{0, 1, 7, 8, 9, 16, 24} {
		for _, w := range []int{1, 2, 7, 8, 9, 15, 16, 17, 24, 31, 32, 33, 40, 48, 56, 63, 64} {
			for _, signed := range []bool{false, true} {
				if (signed && w < 2) || pos+w > 8*len(c14FreshBuf) {
					continue
				}
				ops = append(ops, c14Op{pos, w, signed})
			}
		}
	}
	return ops
}

func init() {
	Fresh["C14"] = func(i int) string {
		ops := c14FreshOps()
		if i < 0 || i >= len(ops) {
			return "no such operation"
		}
		o := ops[i]
		first, p := c14Eval(c14FreshBuf, o.pos, o.width, o.signed)
		if p != "" {
			return "panic " + p
		}
		// and a second, different call afterwards (state the first one left behind)
		o2 := ops[(i+37)%len(ops)]
		second, p2 := c14Eval(c14FreshBuf, o2.pos, o2.width, o2.signed)
		if p2 != "" {
			return first.String() + " panic " + p2
		}
		return first.String() + " " + second.String()
	}
}

// C14: bit-field extraction against a big-integer / shift-and-mask reference.
func C14(r *ev.Run) {
	thorough := r.Tier == "thorough"
	r.Rule = "E1: every bit pattern of a 2-byte (quick) / 3-byte (thorough) buffer x every (pos,width) inside it, unsigned and signed, vs shift-and-mask on the whole integer; E2: widths 1..64 x pos 0..23 x buffer sized exactly to the field and a 12-byte buffer x {all0, all1, walking 1, walking 0, every pair of set bits, field-ones/outside-zero, field-zero/outside-ones, top bit only, two alternating patterns} vs math/big, the first ten patterns of each exactly-sized buffer also as slices with 1..9 spare bytes of 00/FF beyond their length; E3: buffers of 2^8, 2^13, 2^16, 2^21, 2^24 (thorough: 2^28, 2^29) + 16 bytes with a position-dependent fill and its complement x every position in the 11 bytes round that byte index x every width, unsigned and signed, vs the reference applied to the bytes that hold the field (index arithmetic far from the start of the buffer); E4: 7 alignments x 17 widths x signedness, each as the first extraction of a fresh process (one child process per case) followed by one other; non-trivial distinct = distinct (width,pos,signedness,pattern class) combinations"
	r.Assumptions = []string{"reads before the field cannot be observed directly; influence of outside bits is checked by the complement patterns; reads past the end are caught by the exactly-sized buffers (they panic)"}
	fail := func(buf []byte, pos, width int, signed bool, got, want interface{}, kind string) {
		s := "unsigned"
		if signed {
			s = "signed"
		}
		r.Violate(ev.Violation{Fingerprint: fmt.Sprintf("C14 %s %s width=%d", s, kind, width),
			What:     fmt.Sprintf("%s extraction of %d bits at %d from %x", s, width, pos, buf),
			Case:     c14Case{ev.FullHex(buf), pos, width, signed},
			Expected: fmt.Sprint(want), Actual: fmt.Sprint(got), ReplayKind: "c14-case"})
	}

	// E1 — complete small buffers.
	nbytes := 2
	if thorough {
		nbytes = 3
	}
	nbits := nbytes * 8
	total := 1 << uint(nbits)
	chunks := 256
	per := total / chunks
	parallelFor(chunks, func(ci int) {
		buf := make([]byte, nbytes)
		var calls int64
		for v := ci * per; v < (ci+1)*per; v++ {
			for i := 0; i < nbytes; i++ {
				buf[i] = byte(v >> uint(8*(nbytes-1-i)))
			}
			for pos := 0; pos < nbits; pos++ {
				for w := 1; pos+w <= nbits; w++ {
					want := (uint64(v) >> uint(nbits-pos-w)) & (1<<uint(w) - 1)
					got := utils.GetBitsAsUint64(buf, uint(pos), uint(w))
					calls++
					if got != want {
						fail(buf, pos, w, false, got, want, "mismatch")
					}
					if w >= 2 {
						sw := int64(want)
						if want>>(uint(w)-1) == 1 {
							sw -= 1 << uint(w)
						}
						sg := utils.GetBitsAsInt64(buf, uint(pos), uint(w))
						calls++
						if sg != sw {
							fail(buf, pos, w, true, sg, sw, "mismatch")
						}
					}
				}
			}
		}
		r.Count(calls, 0, calls, calls)
	})
	r.Extra["E1_buffer_bytes"] = nbytes
	r.Extra["E1_bit_patterns"] = total
	r.Sample(map[string]interface{}{"enumeration": "E1", "buf": "a5c3", "pos": 3, "width": 9, "unsigned": utils.GetBitsAsUint64([]byte{0xa5, 0xc3}, 3, 9), "signed": utils.GetBitsAsInt64([]byte{0xa5, 0xc3}, 3, 9)})

	// E2 — all widths and alignments, structured patterns.
	type pw struct{ pos, w int }
	var pws []pw
	for w := 1; w <= 64; w++ {
		for pos := 0; pos < 24; pos++ {
			pws = append(pws, pw{pos, w})
		}
	}
	parallelFor(len(pws), func(i int) {
		pos, w := pws[i].pos, pws[i].w
		exact := (pos + w + 7) / 8
		var calls int64
		for _, size := range []int{exact, 12} {
			nb := size * 8
			var pats [][]byte
			add := func(f func(bit int) bool) {
				b := make([]byte, size)
				for k := 0; k < nb; k++ {
					if f(k) {
						b[k/8] |= 0x80 >> uint(k%8)
					}
				}
				pats = append(pats, b)
			}
			in := func(k int) bool { return k >= pos && k < pos+w }
			add(func(int) bool { return false })
			add(func(int) bool { return true })
			add(in)
			add(func(k int) bool { return !in(k) })
			add(func(k int) bool { return k == pos })
			add(func(k int) bool { return k%2 == 0 })
			add(func(k int) bool { return k%2 == 1 })
			add(func(k int) bool { return in(k) && k != pos }) // maximum positive
			for a := 0; a < nb; a++ {
				a := a
				add(func(k int) bool { return k == a })
				add(func(k int) bool { return k != a })
			}
			// every pair of set bits, restricted to pairs touching the field or its neighbours
			lo, hi := pos-9, pos+w+9
			if lo < 0 {
				lo = 0
			}
			if hi > nb {
				hi = nb
			}
			for a := lo; a < hi; a++ {
				for b := a + 1; b < hi; b++ {
					a, b := a, b
					add(func(k int) bool { return k == a || k == b })
				}
			}
			// the same buffers as slices with spare capacity (a payload cut out of a
			// frame, a reused receive buffer): what lies beyond len(buf) is not part
			// of the buffer and must not be read or matter
			if size == exact {
				for pi, buf := range pats {
					if pi >= 10 {
						break
					}
					for _, spare := range []int{1, 2, 3, 4, 5, 8, 9} {
						for _, fillB := range []byte{0x00, 0xFF} {
							big := make([]byte, len(buf)+spare)
							copy(big, buf)
							for k := len(buf); k < len(big); k++ {
								big[k] = fillB
							}
							view := big[:len(buf)]
							for _, signed := range []bool{false, true} {
								if signed && w < 2 {
									continue
								}
								got, p := c14Eval(view, pos, w, signed)
								calls++
								want := c14Ref(buf, pos, w, signed)
								if p != "" || got.Cmp(want) != 0 {
									s := "unsigned"
									if signed {
										s = "signed"
									}
									r.Violate(ev.Violation{Fingerprint: fmt.Sprintf("C14 %s buffer-with-spare-capacity width=%d", s, w),
										What:     fmt.Sprintf("%s extraction of %d bits at %d from %x held in a slice with %d spare bytes (%02x) beyond its length: got %v %s, want %v", s, w, pos, buf, spare, fillB, got, p, want),
										Case:     c14Case{ev.FullHex(buf), pos, w, signed}, Expected: fmt.Sprint(want), Actual: fmt.Sprint(got), ReplayKind: "c14-spare"})
								}
							}
						}
					}
				}
			}
			for _, buf := range pats {
				for _, signed := range []bool{false, true} {
					if signed && w < 2 {
						continue
					}
					got, p := c14Eval(buf, pos, w, signed)
					calls++
					if p != "" {
						fail(buf, pos, w, signed, "panic "+p, "value", "panic")
						continue
					}
					want := c14Ref(buf, pos, w, signed)
					if got.Cmp(want) != 0 {
						fail(buf, pos, w, signed, got, want, "mismatch")
					}
				}
			}
			r.Distinct(fmt.Sprintf("%d/%d/%d", pos, w, size))
		}
		r.Count(calls, 0, calls, calls)
		if w == 38 && pos == 5 {
			r.Sample(map[string]interface{}{"enumeration": "E2", "pos": pos, "width": w, "exact_buffer_bytes": exact, "patterns_per_buffer": "see rule"})
		}
	})
	// E3 — large buffers: every field that touches the 9 bytes before or the byte
	// after a byte index of 2^8, 2^13 (bit 2^16), 2^16, 2^21 (bit 2^24), 2^24
	// (thorough: 2^28 = bit 2^31, 2^29 = bit 2^32)
	bounds := []int{1 << 8, 1 << 13, 1 << 16, 1 << 21, 1 << 24}
	if thorough {
		bounds = append(bounds, 1<<28, 1<<29)
	}
	for _, bd := range bounds {
		for _, inv := range []bool{false, true} {
			buf := c14BigBuf(bd, inv)
			positions := 8 * 11
			parallelFor(positions, func(pi int) {
				pos := 8*(bd-9) + pi
				var calls int64
				for w := 1; w <= 64 && pos+w <= 8*len(buf); w++ {
					for _, signed := range []bool{false, true} {
						if signed && w < 2 {
							continue
						}
						k := c14Big{bd, inv, pos, w, signed}
						calls++
						if bad, got, want := c14BigCheck(buf, k); bad {
							s, kind := "unsigned", "mismatch"
							if signed {
								s = "signed"
							}
							if strings.HasPrefix(got, "panic") {
								kind = "panic"
							}
							r.Violate(ev.Violation{Fingerprint: fmt.Sprintf("C14 %s %s far-from-buffer-start boundary=%d", s, kind, bd),
								What: fmt.Sprintf("%s extraction of %d bits at bit %d of a %d-byte buffer", s, w, pos, len(buf)),
								Case: k, Expected: want, Actual: got, ReplayKind: "c14-big"})
						}
					}
				}
				r.Count(calls, 0, calls, calls)
				r.Distinct(fmt.Sprintf("big/%d/%d", bd, pi))
			})
		}
	}
	// E4 — every (alignment, width, signedness) class as the FIRST extraction of a
	// fresh process, followed by one other: tables or masks that code builds
	// lazily must be right whichever call comes first
	fops := c14FreshOps()
	parallelFor(len(fops), func(i int) {
		o, o2 := fops[i], fops[(i+37)%len(fops)]
		want := c14Ref(c14FreshBuf, o.pos, o.width, o.signed).String() + " " + c14Ref(c14FreshBuf, o2.pos, o2.width, o2.signed).String()
		got, fault := runFresh("C14", i)
		r.Count(2, 1, 2, 2)
		if fault != "" {
			r.Cap("fresh-process operation could not be run: " + fault)
			return
		}
		if got != want {
			s := "unsigned"
			if o.signed {
				s = "signed"
			}
			r.Violate(ev.Violation{Fingerprint: fmt.Sprintf("C14 %s first-call-in-a-fresh-process width=%d", s, o.width),
				What: fmt.Sprintf("%s extraction of %d bits at %d as the first call of a new process, then (%d,%d,signed=%v): got %q want %q", s, o.width, o.pos, o2.pos, o2.width, o2.signed, got, want),
				Case: c14Case{ev.FullHex(c14FreshBuf), o.pos, o.width, o.signed}, Expected: want, Actual: got, ReplayKind: "c14-fresh"})
		}
	})
	r.Extra["E4_fresh_process_first_calls"] = len(fops)
	r.Extra["E3_boundaries_bytes"] = bounds
	r.Sample(map[string]interface{}{"enumeration": "E3", "boundary_bytes": 65536, "pos": 8*65536 - 3, "width": 38})
	r.States = int64(len(pws))*2 + int64(total) + int64(len(bounds))*2*88
	r.Exhaustive = true
	r.Outcome("match")
}
