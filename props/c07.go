package props

import (
	"encoding/json"
	"fmt"
	"log/slog"
	"os"
	"sync/atomic"
	"time"

	"verif/internal/ev"
	"verif/ref"

	"github.com/goblimey/go-ntrip/rtcm/handler"
	"github.com/goblimey/go-ntrip/rtcm/pushback"
	"github.com/goblimey/go-ntrip/rtcm/type1005"
	"github.com/goblimey/go-ntrip/rtcm/type1006"
	msm4 "github.com/goblimey/go-ntrip/rtcm/type_msm4/message"
	msm7 "github.com/goblimey/go-ntrip/rtcm/type_msm7/message"
)

func init() {
	Registry["C07"] = C07
	Replayers["robust-frame"] = func(c json.RawMessage) (bool, string) {
		var k struct {
			Frame string `json:"frame"`
		}
		json.Unmarshal(c, &k)
		var f []byte
		fmt.Sscanf(k.Frame, "%x", &f)
		d := exerciseFrame(f)
		return d != "", d
	}
}

var decodableTypes = []int{1005, 1006, 1074, 1084, 1094, 1104, 1114, 1124, 1134, 1077, 1087, 1097, 1107, 1117, 1127, 1137}

// exerciseFrame pushes one byte string through every public entry point:
// stream framing, single-frame decoding, full decoding and display at both
// log levels, and the four decoders directly.  It returns "" or the fault.
func exerciseFrame(frame []byte) string {
	var where string
	cl, site, p := guard(func() {
		for _, lvl := range []slog.Level{slog.LevelDebug, slog.LevelInfo} {
			where = "GetMessage"
			h := handler.New(frameStart, lvl)
			m, _ := h.GetMessage(append([]byte{}, frame...))
			if m != nil {
				where = "Analyse"
				handler.Analyse(m)
				where = "String"
				_ = m.String()
				_ = m.String()
				where = "Copy+String"
				c := m.Copy()
				c.LogLevel = lvl
				_ = c.String()
				// what the decoders hand back, displayed as the repository's own tests
				// do: the object PrepareForDisplay returns / Analyse leaves in Readable
				if m2, _ := handler.New(frameStart, lvl).GetMessage(append([]byte{}, frame...)); m2 != nil {
					where = "PrepareForDisplay"
					obj := handler.PrepareForDisplay(m2)
					where = "String of the object returned by PrepareForDisplay"
					if obj != nil {
						if st, ok := obj.(fmt.Stringer); ok {
							_ = st.String()
						}
					}
					where = "String of Message.Readable"
					if m.Readable != nil {
						if st, ok := m.Readable.(fmt.Stringer); ok {
							_ = st.String()
						}
					}
				}
			}
			where = "HandleMessages-loop"
			ch := make(chan byte, len(frame)+2)
			for _, b := range frame {
				ch <- b
			}
			ch <- 0xD3
			close(ch)
			pb := pushback.New(ch)
			h2 := handler.New(frameStart, lvl)
			for i := 0; ; i++ {
				if i > len(frame)+4 {
					panic("no progress in framing loop (endless loop)")
				}
				msg, err := h2.FetchNextMessageFrame(pb)
				if err != nil && err.Error() == "done" {
					break
				}
				where = "String(streamed)"
				_ = msg.String()
				where = "HandleMessages-loop"
			}
			where = "msm4.GetMessage"
			if d, err := msm4.GetMessage(frame, lvl); err == nil && d != nil {
				where = "msm4.String"
				_ = d.String()
			}
			where = "msm7.GetMessage"
			if d, err := msm7.GetMessage(frame, lvl); err == nil && d != nil {
				where = "msm7.String"
				_ = d.String()
			}
			where = "type1005.GetMessage"
			if d, err := type1005.GetMessage(frame, lvl); err == nil && d != nil {
				_ = d.String()
			}
			where = "type1006.GetMessage"
			if d, err := type1006.GetMessage(frame, lvl); err == nil && d != nil {
				_ = d.String()
			}
		}
	})
	if p {
		return fmt.Sprintf("panic %s@%s during %s", cl, site, where)
	}
	return ""
}

func inputClass(frame []byte) string {
	if !ref.IsFrame(frame) {
		return "not-a-frame"
	}
	t := ref.FrameType(frame)
	fam := "other"
	switch {
	case ref.IsMSM4(t):
		fam = "msm4"
	case ref.IsMSM7(t):
		fam = "msm7"
	case t == 1005 || t == 1006:
		fam = fmt.Sprint(t)
	}
	L := len(frame) - 6
	bucket := ">=22"
	switch {
	case L < 4:
		bucket = "<4"
	case L < 7:
		bucket = "4..6"
	case L < 22:
		bucket = "7..21"
	}
	return fmt.Sprintf("type=%s payloadLen%s", fam, bucket)
}

// C07: nothing crashes or hangs framing, decoding or display.
func C07(r *ev.Run) {
	thorough := r.Tier == "thorough"
	r.Rule = "(a) all strings up to length 6/7 over the C01 alphabets and all sequences of <=2/3 menu segments; (b) for each of the 16 decodable types x every payload length 1..1023 (quick: 1..64 and every 7th after) x 14 deterministic payload patterns (zeros, ones, two alternating patterns, masks announcing 1x1, 2x2, 8x8, 64x1, 1x32, 9x8 (>64) and 64x32 cells, illegal timestamps, all-invalid markers, counter bytes): CRC-valid frame through HandleMessages' loop, GetMessage, Analyse, String twice, Copy+String, PrepareForDisplay and the String method of whatever it returns (and of Message.Readable) at both log levels and the four decoders directly; (c) every well-formed message of a C04/C05 selection truncated at every payload byte and re-framed with a valid CRC; (f) for each of the 14 MSM types, complete messages (2 satellites, 3 cells) in which a satellite carries each subset of {range invalid, rate invalid} and a cell each subset of {range delta, phase delta, rate delta invalid}, in one satellite/cell and in all; (d) every type 0..4095 with payload lengths {1,2,3,4,6,7,21,22,23}; (e) every ordered pair and triple from a 26-frame menu (MSM4/MSM7 of four constellations with early and late timestamps so that sequences cross week roll-overs, illegal timestamps, a message with cells, a short MSM, SBAS, 1005, text, an unknown type) through ONE handler at both log levels, every message decoded and displayed and all of them displayed again at the end. Oracle: every call returns (no panic, bounded framing loop, 60 s stall watchdog). Non-trivial = CRC-valid frames of a decodable type; distinct = distinct frames"
	r.Assumptions = []string{"'bounded time' is enforced by an iteration bound on the framing loop plus a stall watchdog; a hang is reported only if it reproduces"}
	var cur atomic.Value
	var progress int64
	done := make(chan struct{})
	go func() { // stall watchdog
		last, since := int64(0), time.Now()
		for {
			select {
			case <-done:
				return
			case <-time.After(2 * time.Second):
			}
			p := atomic.LoadInt64(&progress)
			if p != last {
				last, since = p, time.Now()
				continue
			}
			if time.Since(since) > 60*time.Second {
				f, _ := cur.Load().([]byte)
				// confirm on fresh goroutines before believing it
				hung := 0
				for i := 0; i < 2; i++ {
					ok := make(chan struct{})
					go func() { exerciseFrame(f); close(ok) }()
					select {
					case <-ok:
					case <-time.After(20 * time.Second):
						hung++
					}
				}
				if hung == 2 {
					r.Violate(ev.Violation{Fingerprint: "C07 hang " + inputClass(f), What: "a call did not return within 60 s (reproduced twice)", Case: map[string]interface{}{"frame": ev.FullHex(f)}, ReplayKind: "robust-frame"})
					os.Exit(r.Finish())
				}
				fmt.Fprintln(os.Stderr, "MACHINERY FAILURE: stall that did not reproduce")
				os.Exit(2)
			}
		}
	}()
	defer close(done)
	try := func(frame []byte) {
		cur.Store(frame)
		d := exerciseFrame(frame)
		atomic.AddInt64(&progress, 1)
		if d != "" {
			r.Violate(ev.Violation{Fingerprint: "C07 " + d + " class=" + inputClass(frame), What: d, Case: map[string]interface{}{"frame": ev.FullHex(frame)}, ReplayKind: "robust-frame"})
			r.Outcome("fault")
		} else {
			r.Outcome("returned")
		}
	}
	// (a)
	maxLen := 6
	depth := 2
	if thorough {
		maxLen, depth = 7, 3
	}
	f1 := ref.Frame([]byte{0x43}) // first byte of the MSM7 types
	alpha := []byte{0xD3, 0x00, 0x01, 0x02, 0x43, f1[4], f1[5], f1[6]}
	var na int64
	symbolStrings(alpha, maxLen, func(s []byte) { try(append([]byte{}, s...)); atomic.AddInt64(&na, 1) })
	menu := c01Menu()
	sequences(len(menu), depth, func(idx []int) {
		s, _ := concatSegs(menu, idx)
		try(s)
		atomic.AddInt64(&na, 1)
	})
	r.Count(na, 0, na*12, na)
	// (b)
	maskPattern := func(nsat, nsig int, cellFill byte) func(i int) byte {
		// header: 73 bits of scalars, then 64-bit satellite mask, 32-bit signal mask, then cell mask and data
		w := &ref.BitWriter{}
		h := &ref.MSMHeader{Timestamp: 5000}
		if nsat > 0 {
			h.SatMask = ^uint64(0) << uint(64-nsat)
		}
		if nsig > 0 {
			h.SigMask = ^uint32(0) << uint(32-nsig)
		}
		ref.MSMHeaderBits(w, h)
		hdr := w.Bytes()
		return func(i int) byte {
			if i < len(hdr) {
				return hdr[i]
			}
			return cellFill
		}
	}
	patterns := []struct {
		name string
		fill func(i int) byte
	}{
		{"zeros", func(int) byte { return 0 }}, {"ones", func(int) byte { return 0xFF }},
		{"alt55", func(int) byte { return 0x55 }}, {"altAA", func(int) byte { return 0xAA }},
		{"mask1x1", maskPattern(1, 1, 0xFF)}, {"mask2x2", maskPattern(2, 2, 0xFF)}, {"mask8x8", maskPattern(8, 8, 0xA5)},
		{"mask64x1", maskPattern(64, 1, 0xFF)}, {"mask1x32", maskPattern(1, 32, 0x0F)}, {"mask9x8", maskPattern(9, 8, 0xFF)},
		{"mask64x32", maskPattern(64, 32, 0xFF)},
		{"illegal-timestamp", func(i int) byte {
			if i >= 3 && i <= 6 {
				return 0xFF
			}
			return byte(i)
		}},
		{"invalid-markers", func(i int) byte { return 0x80 }}, {"counter", fillA},
	}
	var lens []int
	for L := 1; L <= 1023; L++ {
		if thorough || L <= 64 || L%7 == 0 || L >= 1020 {
			lens = append(lens, L)
		}
	}
	parallelFor(len(lens), func(li int) {
		L := lens[li]
		var n int64
		for _, t := range decodableTypes {
			for _, pt := range patterns {
				frame := ref.TypedFrame(t, L, pt.fill)
				try(frame)
				r.Distinct(string(frame))
				n++
			}
		}
		r.Count(n, 0, n*12, n)
	})
	// (c) truncations of well-formed messages
	var whole [][]byte
	for _, t := range []int{1074, 1084, 1124, 1134, 1077, 1087, 1097, 1127} {
		for _, sh := range [][2]int{{1, 1}, {2, 2}, {8, 8}, {64, 1}, {3, 20}} {
			for _, val := range []string{"counter", "max"} {
				n := sh[0] * sh[1]
				cm := make([]byte, n)
				for i := range cm {
					cm[i] = '1'
					if val == "max" && i%3 == 1 {
						cm[i] = '0'
					}
				}
				spec := msmSpec{Type: t, SatMask: ^uint64(0) << uint(64-sh[0]), SigMask: ^uint32(0) << uint(32-sh[1]), CellBits: string(cm), Values: val, Scalars: "zero"}
				if n > 64 {
					continue
				}
				h, sats, sigs := spec.build()
				p, _ := ref.EncodeMSM(h, sats, sigs, 0)
				if len(p) <= 1023 {
					whole = append(whole, p)
				}
				spec.Multiple = true
				h, sats, sigs = spec.build()
				p, _ = ref.EncodeMSM(h, sats, sigs, 0)
				if len(p) <= 1023 {
					whole = append(whole, p)
				}
			}
		}
	}
	whole = append(whole, ref.EncodeStation(&ref.Station{Type: 1005, ID: 1, X: -5, Y: 6, Z: 7}, false, 0), ref.EncodeStation(&ref.Station{Type: 1006, ID: 1, X: -5, Y: 6, Z: 7, Height: 8}, true, 0))
	parallelFor(len(whole), func(i int) {
		p := whole[i]
		var n int64
		step := 1
		if !thorough && len(p) > 120 {
			step = 3
		}
		for cut := 1; cut <= len(p); cut += step {
			frame := ref.Frame(p[:cut])
			try(frame)
			r.Distinct(string(frame))
			n++
		}
		r.Count(n, 0, n*12, n)
	})
	// (f) complete, decodable MSM messages whose satellites and cells carry every
	// combination of the reserved 'invalid' values (decoders and display treat these
	// specially, and some combinations only meet in the display code)
	var marked [][]byte
	for _, t := range []int{1074, 1084, 1094, 1104, 1114, 1124, 1134, 1077, 1087, 1097, 1107, 1117, 1127, 1137} {
		m7 := ref.IsMSM7(t)
		rd, pd := int64(-(1 << 14)), int64(-(1 << 21))
		if m7 {
			rd, pd = -(1 << 19), -(1 << 23)
		}
		for satc := 0; satc < 4; satc++ {
			for sigc := 0; sigc < 8; sigc++ {
				for _, all := range []bool{false, true} {
					sat := ref.MSMSat{Whole: 77, Ext: 3, Frac: 500, Rate: -100}
					if satc&1 != 0 {
						sat.Whole = 255
					}
					if satc&2 != 0 {
						sat.Rate = -(1 << 13)
					}
					sig := ref.MSMSig{RangeDelta: 9, PhaseDelta: -9, Lock: 3, CNR: 40, RateDelta: 5}
					if sigc&1 != 0 {
						sig.RangeDelta = rd
					}
					if sigc&2 != 0 {
						sig.PhaseDelta = pd
					}
					if sigc&4 != 0 {
						sig.RateDelta = -(1 << 14)
					}
					plainSat := ref.MSMSat{Whole: 80, Ext: 1, Frac: 1, Rate: 7}
					plainSig := ref.MSMSig{RangeDelta: 1, PhaseDelta: 2, Lock: 1, CNR: 30, RateDelta: 3}
					sats := []ref.MSMSat{sat, plainSat}
					sigs := []ref.MSMSig{sig, plainSig, plainSig}
					if all {
						sats = []ref.MSMSat{sat, sat}
						sigs = []ref.MSMSig{sig, sig, sig}
					}
					h := &ref.MSMHeader{Type: t, Station: 3, Timestamp: 1000, SatMask: 0x5 << 60, SigMask: 0x3 << 29, CellMask: []bool{true, false, true, true}}
					marked = append(marked, ref.MSMFrame(h, sats, sigs, 0))
				}
			}
		}
	}
	parallelFor(len(marked), func(i int) {
		try(marked[i])
		r.Distinct(string(marked[i]))
		r.Count(1, 1, 12, 1)
	})
	r.Extra["reserved_value_frames"] = len(marked)
	// (d) every type, short payloads
	parallelFor(4096, func(t int) {
		var n int64
		for _, L := range []int{1, 2, 3, 4, 6, 7, 21, 22, 23} {
			try(ref.TypedFrame(t, L, fillA))
			n++
		}
		r.Count(n, 0, n*12, n)
	})
	// (e) sequences through ONE handler: a crash may need state left behind by
	// earlier frames (week roll-overs, illegal timestamps, caches)
	var seqMenu [][]byte
	for _, c := range []ref.Constellation{ref.GPS, ref.Galileo, ref.Glonass, ref.Beidou} {
		for _, m7 := range []bool{false, true} {
			lo, hi := uint(1000), uint(600000000)
			if c == ref.Glonass {
				lo, hi = 0<<27|5000, 6<<27|80000000
			}
			seqMenu = append(seqMenu, ref.HeaderOnlyMSM(c.MSMType(m7), lo), ref.HeaderOnlyMSM(c.MSMType(m7), hi))
		}
		seqMenu = append(seqMenu, ref.HeaderOnlyMSM(c.MSMType(true), 1<<30-1))
	}
	cellSpec := msmSpec{Type: 1077, SatMask: 0xA << 60, SigMask: 0x6 << 28, CellBits: "1011", Values: "counter", Scalars: "zero"}
	ch, cs, cg := cellSpec.build()
	seqMenu = append(seqMenu, ref.MSMFrame(ch, cs, cg, 0), ref.TypedFrame(1077, 3, nil), ref.TypedFrame(1107, 22, nil),
		ref.Frame(ref.EncodeStation(&ref.Station{Type: 1005, ID: 1, X: 1, Y: 2, Z: 3}, false, 0)), []byte("$GPGGA\n"), ref.TypedFrame(4001, 5, nil))
	seqDepth := 3
	nm := len(seqMenu)
	parallelFor(nm*nm, func(ij int) {
		var n int64
		for k := -1; k < nm; k++ {
			idx := []int{ij / nm, ij % nm}
			if k >= 0 {
				if seqDepth < 3 {
					continue
				}
				idx = append(idx, k)
			}
			for _, lvl := range []slog.Level{slog.LevelDebug, slog.LevelInfo} {
				var where string
				cl, site, p := guard(func() {
					h := handler.New(frameStart, lvl)
					var kept []*handler.Message
					for step, fi := range idx {
						where = fmt.Sprintf("message %d of the sequence", step+1)
						m, _ := h.GetMessage(append([]byte{}, seqMenu[fi]...))
						if m == nil {
							continue
						}
						handler.Analyse(m)
						_ = m.String()
						kept = append(kept, m)
					}
					where = "re-display of earlier messages"
					for _, m := range kept {
						_ = m.String()
					}
				})
				n++
				if p {
					var frames []string
					for _, fi := range idx {
						frames = append(frames, ev.FullHex(seqMenu[fi]))
					}
					r.Violate(ev.Violation{Fingerprint: fmt.Sprintf("C07 sequence panic %s@%s", cl, site), What: "panic at " + where + " of a frame sequence through one handler",
						Case: map[string]interface{}{"frames_in_order": frames, "level": lvl.String()}})
				}
			}
		}
		r.Count(n, 0, n*3, n)
		r.DistinctN += n
	})
	r.Extra["sequence_menu"] = nm
	r.Sample(map[string]interface{}{"part": "b", "type": 1077, "payload_len": 3, "pattern": "mask9x8", "frame": ev.FullHex(ref.TypedFrame(1077, 3, patterns[9].fill))})
	r.Sample(map[string]interface{}{"part": "c", "truncated_payload_of": "1077 8x8 counter", "cut": 40})
	r.Extra["payload_lengths"] = len(lens)
	r.Extra["patterns"] = len(patterns)
	r.Extra["truncated_messages"] = len(whole)
}
