package props

import (
	"fmt"
	"log/slog"
	"strings"
	"time"

	"verif/internal/ev"
	"verif/ref"

	"github.com/goblimey/go-ntrip/rtcm/handler"
	"github.com/goblimey/go-ntrip/rtcm/type1005"
	"github.com/goblimey/go-ntrip/rtcm/type1006"
	msm4 "github.com/goblimey/go-ntrip/rtcm/type_msm4/message"
	msm7 "github.com/goblimey/go-ntrip/rtcm/type_msm7/message"
	"github.com/goblimey/go-ntrip/rtcm/utils"
)

func init() { Registry["C20"] = C20 }

// constellation stems per decade 107x..113x, independent of the library.
var constStem = map[int]string{107: "gps", 108: "glonass", 109: "galileo", 110: "sbas", 111: "qzss", 112: "beidou", 113: "navic"}

func refMSM4(t int) bool { return t >= 1074 && t <= 1134 && t%10 == 4 }
func refMSM7(t int) bool { return t >= 1077 && t <= 1137 && t%10 == 7 }

// C20 enumerates all 4096 message types and the two negative sentinels.
func C20(r *ev.Run) {
	r.Rule = "complete enumeration of message types -2..4095; each type is one case; each type is also sent, as CRC-valid frames of 9 payload lengths (2..300, including the sizes of 1005/1006 and padded ones) followed by a second frame, through HandleMessages, whose classification must agree with GetMessage; MSM types are offered to the decoders again with timestamp 0 and with the last millisecond of their week; each type is classified again after four short histories on one handler (an intact frame of the other kind and damaged or truncated frames of this type), which must give what a fresh handler gives; non-trivial = every case (each exercises 10 classification observations); distinct = distinct type values"
	r.Assumptions = []string{"constellation names are compared by case-insensitive stem (gps, glonass, galileo, sbas, qzss, beidou, navic), not by exact spelling"}
	start := time.Date(2023, 5, 10, 12, 0, 0, 0, time.UTC)
	names := map[string]int{} // constellation name -> decade
	type res struct{ fails []ev.Violation }
	fail := func(t int, kind, what string, exp, act interface{}) {
		r.Violate(ev.Violation{Fingerprint: "C20 " + kind, What: what,
			Case: map[string]interface{}{"message_type": t}, Expected: exp, Actual: act, ReplayKind: "c20-type"})
	}
	unknownName := utils.GetConstellation(0)
	for t := -2; t <= 4095; t++ {
		r.Count(1, 1, 0, 1)
		r.Distinct(fmt.Sprint(t))
		e4, e7 := refMSM4(t), refMSM7(t)
		if g := utils.MSM4(t); g != e4 {
			fail(t, "MSM4-classification", fmt.Sprintf("utils.MSM4(%d)=%v", t, g), e4, g)
		}
		if g := utils.MSM7(t); g != e7 {
			fail(t, "MSM7-classification", fmt.Sprintf("utils.MSM7(%d)=%v", t, g), e7, g)
		}
		if g := utils.MSM(t); g != (e4 || e7) {
			fail(t, "MSM-classification", fmt.Sprintf("utils.MSM(%d)=%v", t, g), e4 || e7, g)
		}
		r.Count(0, 0, 3, 0)
		name := utils.GetConstellation(t)
		r.Count(0, 0, 1, 0)
		if e4 || e7 {
			stem := constStem[t/10]
			if !strings.Contains(strings.ToLower(strings.ReplaceAll(name, " ", "")), stem) {
				fail(t, "constellation-name", fmt.Sprintf("GetConstellation(%d)=%q", t, name), stem, name)
			}
			if d, ok := names[name]; ok && d != t/10 {
				fail(t, "constellation-name-shared", fmt.Sprintf("name %q used for decades %d and %d", name, d, t/10), nil, name)
			}
			names[name] = t / 10
		} else if name != unknownName {
			fail(t, "constellation-name-nonmsm", fmt.Sprintf("GetConstellation(%d)=%q for a non-MSM4/7 type", t, name), unknownName, name)
		}
		tc := utils.GetTitleAndComment(t)
		r.Count(0, 0, 1, 0)
		if tc == nil || len(strings.TrimSpace(tc.Title)) == 0 {
			fail(t, "empty-title", fmt.Sprintf("empty title for type %d", t), "non-empty", "")
		}
		if t < 0 {
			// The sentinels have no frame; they must still display.
			for _, lvl := range []slog.Level{slog.LevelDebug, slog.LevelInfo} {
				m := handler.NewNonRTCM([]byte("junk"))
				m.MessageType = t
				m.LogLevel = lvl
				var s string
				if cl, site, p := guard(func() { s = m.String() }); p {
					fail(t, "display-panic "+cl+"@"+site, "String() panics for sentinel type", nil, cl)
				} else if len(s) == 0 {
					fail(t, "display-empty", "String() empty for sentinel type", nil, "")
				}
				r.Count(0, 0, 1, 0)
			}
			r.Outcome("sentinel")
			continue
		}
		frame := ref.HeaderOnlyMSM(t, 1000)
		for _, lvl := range []slog.Level{slog.LevelDebug, slog.LevelInfo} {
			h := handler.New(start, lvl)
			var m *handler.Message
			cl, site, p := guard(func() { m, _ = h.GetMessage(frame) })
			r.Count(0, 0, 1, 0)
			if p {
				fail(t, "getmessage-panic "+cl+"@"+site, "GetMessage panics on a header-only frame", nil, cl)
				continue
			}
			if m == nil || m.MessageType != t {
				fail(t, "frame-type", "GetMessage type differs from frame type", t, m)
				continue
			}
			hasTS := m.Timestamp == 1000 && m.SentAt != ""
			noTS := m.Timestamp == 0 && m.SentAt == "" && m.StartOfWeek == ""
			if (e4 || e7) && !hasTS {
				fail(t, "timestamp-missing", fmt.Sprintf("MSM type %d carries no extracted timestamp", t), 1000, m.Timestamp)
			}
			if !(e4 || e7) && !noTS {
				fail(t, "timestamp-spurious", fmt.Sprintf("non-MSM type %d carries timestamp/time text", t), 0, fmt.Sprint(m.Timestamp, m.SentAt))
			}
			cl, site, p = guard(func() { handler.Analyse(m) })
			r.Count(0, 0, 1, 0)
			if p {
				fail(t, "analyse-panic "+cl+"@"+site, "Analyse panics on a header-only frame", nil, cl)
				continue
			}
			family := "none"
			switch m.Readable.(type) {
			case *msm4.Message:
				family = "msm4"
			case *msm7.Message:
				family = "msm7"
			case *type1005.Message:
				family = "1005"
			case *type1006.Message:
				family = "1006"
			}
			want := "none"
			switch {
			case e4:
				want = "msm4"
			case e7:
				want = "msm7"
			case t == 1005:
				want = "1005"
			case t == 1006:
				want = "1006"
			}
			if family != want {
				fail(t, "decoder-family", fmt.Sprintf("type %d decoded by family %s, want %s (error %q)", t, family, want, m.ErrorMessage), want, family)
			}
			r.Outcome("family=" + family)
			// the same through the path users take: a message fresh from the handler is
			// only ever displayed; that alone must attempt the full decoding
			if m2, _ := handler.New(start, lvl).GetMessage(append([]byte{}, frame...)); m2 != nil {
				cl2, site2, p2 := guard(func() { _ = m2.String() })
				r.Count(0, 0, 1, 0)
				fam2 := "none"
				switch m2.Readable.(type) {
				case *msm4.Message:
					fam2 = "msm4"
				case *msm7.Message:
					fam2 = "msm7"
				case *type1005.Message:
					fam2 = "1005"
				case *type1006.Message:
					fam2 = "1006"
				}
				if p2 {
					fail(t, "display-panic "+cl2+"@"+site2, "String() on a fresh message panics", nil, cl2)
				} else if fam2 != want {
					fail(t, "decoder-family-via-display", fmt.Sprintf("type %d displayed without Analyse: decoded by family %s, want %s (error %q)", t, fam2, want, m2.ErrorMessage), want, fam2)
				}
			}
			var s string
			cl, site, p = guard(func() { s = m.String() })
			r.Count(0, 0, 1, 0)
			if p {
				fail(t, "display-panic "+cl+"@"+site, "String() panics", nil, cl)
			} else if len(s) == 0 {
				fail(t, "display-empty", "String() is empty", nil, "")
			}
			// Each decoder family accepts exactly its own types.
			_, e := msm4.GetMessage(frame, lvl)
			if (e == nil) != e4 {
				fail(t, "msm4-decoder-acceptance", fmt.Sprintf("MSM4 decoder accepted=%v for type %d", e == nil, t), e4, e == nil)
			}
			_, e = msm7.GetMessage(frame, lvl)
			if (e == nil) != e7 {
				fail(t, "msm7-decoder-acceptance", fmt.Sprintf("MSM7 decoder accepted=%v for type %d", e == nil, t), e7, e == nil)
			}
			_, e = type1005.GetMessage(frame, lvl)
			if (e == nil) != (t == 1005) {
				fail(t, "1005-decoder-acceptance", fmt.Sprintf("1005 decoder accepted=%v for type %d", e == nil, t), t == 1005, e == nil)
			}
			_, e = type1006.GetMessage(frame, lvl)
			if (e == nil) != (t == 1006) {
				fail(t, "1006-decoder-acceptance", fmt.Sprintf("1006 decoder accepted=%v for type %d", e == nil, t), t == 1006, e == nil)
			}
			r.Count(0, 0, 4, 0)
		}
		// an MSM type is accepted by its decoder family over the whole range of its
		// timestamp: 0 and the last millisecond of the constellation's week (GLONASS:
		// day 6, 23:59:59.999)
		if e4 || e7 {
			last := uint(604799999)
			if t/10 == 108 {
				last = 6<<27 | 86399999
			}
			for _, ts := range []uint{0, last} {
				fr := ref.HeaderOnlyMSM(t, ts)
				_, err4 := msm4.GetMessage(fr, slog.LevelInfo)
				_, err7 := msm7.GetMessage(fr, slog.LevelInfo)
				r.Count(0, 0, 2, 0)
				if (err4 == nil) != e4 || (err7 == nil) != e7 {
					fail(t, "decoder-acceptance-depends-on-the-timestamp", fmt.Sprintf("type %d timestamp %d: MSM4 decoder error %v, MSM7 decoder error %v", t, ts, err4, err7), "accepted by exactly its own family", fmt.Sprint(err4, err7))
				}
				if m, _ := handler.New(start, slog.LevelInfo).GetMessage(fr); m != nil {
					handler.Analyse(m)
					_, is4 := m.Readable.(*msm4.Message)
					_, is7 := m.Readable.(*msm7.Message)
					if is4 != e4 || is7 != e7 {
						fail(t, "decoder-family-depends-on-the-timestamp", fmt.Sprintf("type %d timestamp %d: not decoded by its own family (error %q)", t, ts, m.ErrorMessage), nil, m.ErrorMessage)
					}
				}
			}
		}
		// classification must not depend on what the handler saw before: an intact
		// frame of the other kind, then a damaged frame of this type (rejected after
		// its leader was parsed), then the intact frame
		{
			other := ref.HeaderOnlyMSM(1077, 1000)
			if e4 || e7 {
				other = ref.TypedFrame(1005, 19, nil)
			}
			damaged := append([]byte{}, frame...)
			damaged[len(damaged)-1] ^= 0x01
			for _, hist := range [][][]byte{{other, damaged}, {damaged}, {other, frame[:len(frame)-2]}, {other, other, damaged, damaged}} {
				h := handler.New(start, slog.LevelInfo)
				for _, f := range hist {
					guard(func() { h.GetMessage(f) })
				}
				var m *handler.Message
				var err error
				cl, site, p := guard(func() { m, err = h.GetMessage(frame) })
				r.Count(0, 0, 1, 0)
				fresh, ferr := handler.New(start, slog.LevelInfo).GetMessage(frame)
				switch {
				case p:
					fail(t, "getmessage-panic-after-history "+cl+"@"+site, "GetMessage panics after a rejected frame of the same type", nil, cl)
				case m == nil || fresh == nil:
					fail(t, "nil-message-after-history", "nil message", nil, nil)
				case m.MessageType != fresh.MessageType || m.Timestamp != fresh.Timestamp || (m.SentAt == "") != (fresh.SentAt == "") || (m.StartOfWeek == "") != (fresh.StartOfWeek == "") || m.ErrorMessage != fresh.ErrorMessage || (err == nil) != (ferr == nil):
					fail(t, "classification-depends-on-earlier-frames", fmt.Sprintf("type %d after %d earlier frames (one of them a rejected frame of this type): type=%d timestamp=%d sentAt=%q error=%q; on a fresh handler: type=%d timestamp=%d sentAt=%q error=%q", t, len(hist), m.MessageType, m.Timestamp, m.SentAt, m.ErrorMessage, fresh.MessageType, fresh.Timestamp, fresh.SentAt, fresh.ErrorMessage), fresh.ErrorMessage, m.ErrorMessage)
				}
			}
		}
		// the byte-stream route (what every application uses) must classify a frame
		// as GetMessage does, whatever its length: short, exactly the size of a
		// 1005/1006, padded, long
		for _, L := range []int{2, 3, 19, 20, 21, 22, 23, 40, 300} {
			fr := ref.TypedFrame(t, L, nil)
			ms, fault := implHandleMessages(handler.New(start, slog.LevelInfo), append(append([]byte{}, fr...), ref.TypedFrame(1230, 8, nil)...))
			r.Count(0, 0, 1, 0)
			direct, _ := handler.New(start, slog.LevelInfo).GetMessage(fr)
			if fault != "" {
				fail(t, "stream-route "+fault, fmt.Sprintf("type %d payload length %d through HandleMessages", t, L), nil, fault)
			} else if len(ms) != 2 || ms[0].MessageType != t || direct == nil || direct.MessageType != t || ms[1].MessageType != 1230 {
				var got []int
				for _, m := range ms {
					got = append(got, m.MessageType)
				}
				fail(t, "stream-route-classification-differs", fmt.Sprintf("type %d payload length %d: HandleMessages delivers types %v, GetMessage says %d", t, L, got, t), []int{t, 1230}, got)
			}
		}
		if t == 1077 || t == 1005 || t == 4095 {
			r.Sample(map[string]interface{}{"type": t, "frame": ev.FullHex(frame), "msm4": e4, "msm7": e7})
		}
	}
	r.Exhaustive = true
}
