// Package props holds the per-property decision procedures that run in-process
// against the library packages of go-ntrip (engine C of DESIGN.md).
package props

import (
	"fmt"
	"os"
	"os/exec"
	"runtime"
	"runtime/debug"
	"strings"
	"sync"
	"sync/atomic"
	"time"

	"verif/internal/ev"
)

// Check is one registered property check.
type Check func(r *ev.Run)

// Fresh maps property ids to their "first call of a fresh process" operation
// tables: Fresh[id](i) performs operation i and returns its result as text.
// The check spawns one child process per operation (vcheck fresh <id> <i>), so
// that each is the very first call into the library there - state that code
// builds lazily on first use is then in every possible "not yet built" condition.
var Fresh = map[string]func(i int) string{}

// runFresh executes operation i of property id in a new process and returns
// what it printed ("" and an error text when the child failed).
func runFresh(id string, i int) (string, string) {
	out, err := exec.Command(os.Args[0], "fresh", id, fmt.Sprint(i)).CombinedOutput()
	if err != nil {
		return "", fmt.Sprintf("child process failed: %v: %.200s", err, out)
	}
	return strings.TrimSpace(string(out)), ""
}

// Registry maps property ids to their in-process checks.
var Registry = map[string]Check{}

// Workers is the degree of parallelism for enumerations.
var Workers = runtime.NumCPU()

// parallelFor runs body(i) for i in [0,n) on Workers goroutines, in index
// order per worker (stride scheduling keeps simplest-first roughly intact).
func parallelFor(n int, body func(i int)) {
	if n <= 0 {
		return
	}
	w := Workers
	if w > n {
		w = n
	}
	var next int64 = -1
	var wg sync.WaitGroup
	for k := 0; k < w; k++ {
		wg.Add(1)
		go func() {
			defer wg.Done()
			for {
				i := int(atomic.AddInt64(&next, 1))
				if i >= n {
					return
				}
				body(i)
			}
		}()
	}
	wg.Wait()
}

// panicSite returns "<runtime error class>@<top /repo frame>" for a recovered panic.
func panicSite(p interface{}, stack []byte) (class, site string) {
	msg := fmt.Sprint(p)
	switch {
	case strings.Contains(msg, "index out of range"):
		class = "index-out-of-range"
	case strings.Contains(msg, "slice bounds out of range"):
		class = "slice-bounds"
	case strings.Contains(msg, "nil pointer"):
		class = "nil-deref"
	case strings.Contains(msg, "divide by zero"):
		class = "divide-by-zero"
	case strings.Contains(msg, "makeslice"):
		class = "makeslice"
	default:
		class = "panic:" + firstWords(msg, 4)
	}
	site = "unknown"
	lines := strings.Split(string(stack), "\n")
	for _, l := range lines {
		if strings.HasPrefix(l, "github.com/goblimey/go-ntrip/") {
			f := strings.TrimPrefix(l, "github.com/goblimey/go-ntrip/")
			if i := strings.LastIndex(f, "("); i > 0 {
				f = f[:i]
			}
			site = f
			break
		}
	}
	return
}

func firstWords(s string, n int) string {
	f := strings.Fields(s)
	if len(f) > n {
		f = f[:n]
	}
	return strings.Join(f, "-")
}

// guard runs f and converts a panic into (class, site, true).
func guard(f func()) (class, site string, panicked bool) {
	defer func() {
		if p := recover(); p != nil {
			class, site = panicSite(p, debug.Stack())
			panicked = true
		}
	}()
	f()
	return
}

// deadline is an internal time budget; hitting it ends the run with exhaustive:false.
type deadline struct{ t time.Time }

func newDeadline(d time.Duration) deadline { return deadline{time.Now().Add(d)} }
func (d deadline) hit() bool               { return time.Now().After(d.t) }
