package props

import (
	"encoding/json"
	"fmt"
	"log/slog"
	"strings"

	"verif/internal/ev"
	"verif/ref"

	"github.com/goblimey/go-ntrip/rtcm/handler"
	"github.com/goblimey/go-ntrip/rtcm/type1005"
	"github.com/goblimey/go-ntrip/rtcm/type1006"
)

func init() {
	Registry["C05"] = C05
	Replayers["station"] = func(c json.RawMessage) (bool, string) {
		var k stationCase
		json.Unmarshal(c, &k)
		d := c05One(&k)
		return d != "", d
	}
}

type stationCase struct {
	S          ref.Station `json:"station"`
	WithHeight bool        `json:"layout_1006"`
	Extra      int         `json:"extra_bytes"`
	Debug      bool        `json:"debug_level"`
	Truncate   int         `json:"truncate_payload_to"` // -1 = no truncation
}

// dec4 renders v/10000 exactly, to four decimals, in integer arithmetic.
func dec4(v int64) string {
	sign := ""
	if v < 0 {
		sign = "-"
		v = -v
	}
	return fmt.Sprintf("%s%d.%04d", sign, v/10000, v%10000)
}

// c05One runs one case and returns "" or a description of the mismatch.
func c05One(k *stationCase) string {
	payload := ref.EncodeStation(&k.S, k.WithHeight, k.Extra)
	if k.Truncate >= 0 && k.Truncate < len(payload) {
		payload = payload[:k.Truncate]
	}
	if len(payload) == 0 {
		return ""
	}
	frame := ref.Frame(payload)
	lvl := slog.LevelInfo
	if k.Debug {
		lvl = slog.LevelDebug
	}
	// which decoder is this payload meant for?
	type res struct {
		id, itrf, ign1, ign2, ign3, height uint
		x, y, z                            int64
		text                               string
		err                                error
		isNil                              bool
	}
	dec := func(want1006 bool) (r res, pan string) {
		cl, site, p := guard(func() {
			if want1006 {
				m, err := type1006.GetMessage(frame, lvl)
				r.err, r.isNil = err, m == nil
				if m != nil {
					r = res{m.StationID, m.ITRFRealisationYear, m.Ignored1, m.Ignored2, m.Ignored3, m.AntennaHeight, m.AntennaRefX, m.AntennaRefY, m.AntennaRefZ, m.String(), err, false}
				}
			} else {
				m, err := type1005.GetMessage(frame, lvl)
				r.err, r.isNil = err, m == nil
				if m != nil {
					r = res{m.StationID, m.ITRFRealisationYear, m.Ignored1, m.Ignored2, m.Ignored3, 0, m.AntennaRefX, m.AntennaRefY, m.AntennaRefZ, m.String(), err, false}
				}
			}
		})
		if p {
			pan = cl + "@" + site
		}
		return
	}
	for _, want1006 := range []bool{false, true} {
		r, pan := dec(want1006)
		name, needBytes, dtype := "1005", 19, 1005
		if want1006 {
			name, needBytes, dtype = "1006", 21, 1006
		}
		if pan != "" {
			return "PANIC in type" + name + " decoder: " + pan
		}
		typeOK := k.S.Type == dtype
		if !typeOK || len(payload) < needBytes {
			// a different type, or too short for its fields: must be rejected
			if r.err == nil || !r.isNil {
				why := "different type"
				if typeOK {
					why = fmt.Sprintf("payload of %d bytes, %d needed", len(payload), needBytes)
				}
				return fmt.Sprintf("NOT-REJECTED by type%s decoder (%s)", name, why)
			}
			continue
		}
		if r.err != nil || r.isNil {
			return fmt.Sprintf("REJECTED well-formed %s message: %v", name, r.err)
		}
		s := k.S
		if r.id != s.ID || r.itrf != s.ITRF || r.ign1 != s.Ign1 || r.ign2 != s.Ign2 || r.ign3 != s.Ign3 || r.x != s.X || r.y != s.Y || r.z != s.Z {
			return fmt.Sprintf("FIELDS type%s: got id=%d itrf=%d ign=%d,%d,%d xyz=%d,%d,%d", name, r.id, r.itrf, r.ign1, r.ign2, r.ign3, r.x, r.y, r.z)
		}
		coords := fmt.Sprintf("(%s, %s, %s)", dec4(s.X), dec4(s.Y), dec4(s.Z))
		if !strings.Contains(r.text, coords) {
			return fmt.Sprintf("DISPLAY type%s coordinates: want %s in %q", name, coords, r.text)
		}
		if want1006 {
			wantH := uint(0) // a 1005-layout payload has zero bytes where the height would be
			if k.WithHeight {
				wantH = s.Height
			}
			if r.height != wantH {
				return fmt.Sprintf("FIELDS type1006 height: got %d want %d", r.height, wantH)
			}
			hs := "Antenna height " + dec4(int64(wantH)) + " metres"
			if !strings.Contains(r.text, hs) {
				return fmt.Sprintf("DISPLAY type1006 height: want %q in %q", hs, r.text)
			}
		}
	}
	// through the handler: GetMessage + String must show the same numbers
	if (k.S.Type == 1005 && !k.WithHeight || k.S.Type == 1006 && k.WithHeight) && k.Truncate < 0 {
		h := handler.New(frameStart, lvl)
		var text string
		var m *handler.Message
		cl, site, p := guard(func() {
			m, _ = h.GetMessage(frame)
			text = m.String()
		})
		if p {
			return "PANIC in handler path: " + cl + "@" + site
		}
		if m.MessageType != k.S.Type {
			return "HANDLER type mismatch"
		}
		coords := fmt.Sprintf("(%s, %s, %s)", dec4(k.S.X), dec4(k.S.Y), dec4(k.S.Z))
		if !strings.Contains(text, coords) {
			return fmt.Sprintf("DISPLAY via handler: want %s in %q", coords, text)
		}
	}
	return ""
}

// C05: 1005/1006 decode exactly and display to 0.1 mm.
func C05(r *ev.Run) {
	thorough := r.Tier == "thorough"
	r.Rule = "message types 1005 and 1006 x station id {0,1,0xAAA,4095} x ITRF {0,1,63} x every value of each reserved bit group x coordinates from the boundary set {-2^37, -2^37+1, -1, 0, 1, 2^37-1, +-2^k (k=0..36), 0x1555555555, -0x1555555556}: full product for one axis with the other two from {min,-1,0,max}, rotated over the three axes; dense sweeps of every integer in +-2^12 (quick) / +-2^17 (thorough) around 0, +-2^37 and each +-2^k for the display clause; height {0,1,0x5555,0x8000,0xFFFF}; 0..3 trailing payload bytes with each height, and every amount of trailing padding up to the 1023-byte maximum payload; every truncation length of the payload (re-framed) and every prefix of the raw frame bytes from 0 bytes up handed straight to the decoders; wrong-type payloads (1005 layout typed 1006, 1006 typed 1005, types 1004 and 1007); both log levels; direct decoders and handler.GetMessage+String. Non-trivial = distinct (type, field vector) cases"
	r.Assumptions = []string{"the display oracle is the exact decimal sign int(|v|/10000).%04d(|v| mod 10000) computed in integers", "a 1006-layout payload typed 1005 counts as a 1005 with trailing bytes (accepted); a 1005-layout payload typed 1006 is too short (rejected)"}
	const maxC = int64(1)<<37 - 1
	const minC = -(int64(1) << 37)
	bset := []int64{minC, minC + 1, -1, 0, 1, maxC, 0x1555555555, -0x1555555556}
	for k := uint(0); k <= 36; k++ {
		bset = append(bset, int64(1)<<k, -(int64(1) << k))
	}
	others := []int64{minC, -1, 0, maxC}
	var cases []stationCase
	add := func(c stationCase) { cases = append(cases, c) }
	for _, t := range []int{1005, 1006} {
		wh := t == 1006
		for axis := 0; axis < 3; axis++ {
			for _, v := range bset {
				for _, o1 := range others {
					for _, o2 := range others {
						xyz := [3]int64{}
						xyz[axis], xyz[(axis+1)%3], xyz[(axis+2)%3] = v, o1, o2
						add(stationCase{S: ref.Station{Type: t, ID: 0xAAA, ITRF: 1, Ign1: 5, X: xyz[0], Y: xyz[1], Z: xyz[2], Ign2: 2, Ign3: 1, Height: 0x5555}, WithHeight: wh, Truncate: -1, Debug: axis == 0})
					}
				}
			}
		}
		for _, id := range []uint{0, 1, 0xAAA, 4095} {
			for _, itrf := range []uint{0, 1, 63} {
				for ign1 := uint(0); ign1 < 16; ign1++ {
					for ign2 := uint(0); ign2 < 4; ign2++ {
						for ign3 := uint(0); ign3 < 4; ign3++ {
							add(stationCase{S: ref.Station{Type: t, ID: id, ITRF: itrf, Ign1: ign1, Ign2: ign2, Ign3: ign3, X: -12345678901, Y: 1, Z: maxC, Height: 1}, WithHeight: wh, Truncate: -1, Debug: ign1%2 == 0})
						}
					}
				}
			}
		}
		for _, hgt := range []uint{0, 1, 0x5555, 0x8000, 0xFFFF, 9999, 10000, 10001} {
			for extra := 0; extra <= 3; extra++ {
				for _, dbg := range []bool{false, true} {
					add(stationCase{S: ref.Station{Type: t, ID: 7, ITRF: 2, X: 38903500000, Y: -1234, Z: 50000, Height: hgt}, WithHeight: wh, Extra: extra, Truncate: -1, Debug: dbg})
				}
			}
		}
		// every legal amount of trailing padding: payload lengths up to the 1023-byte maximum
		base := 19
		if wh {
			base = 21
		}
		for extra := 4; base+extra <= 1023; extra++ {
			add(stationCase{S: ref.Station{Type: t, ID: 4095, ITRF: 63, X: -38903500000, Y: 1234, Z: -50000, Height: 0x8001}, WithHeight: wh, Extra: extra, Truncate: -1, Debug: extra%2 == 0})
		}
		// every truncation length
		for cut := 1; cut <= 24; cut++ {
			add(stationCase{S: ref.Station{Type: t, ID: 7, ITRF: 2, X: 38903500000, Y: -1234, Z: 50000, Height: 77}, WithHeight: wh, Extra: 3, Truncate: cut})
		}
	}
	// wrong types and cross layouts
	for _, t := range []int{1004, 1007, 0, 4095, 1005, 1006} {
		for _, wh := range []bool{false, true} {
			add(stationCase{S: ref.Station{Type: t, ID: 9, ITRF: 3, X: 1, Y: 2, Z: 3, Height: 4}, WithHeight: wh, Truncate: -1})
		}
	}
	// raw buffers handed straight to the decoders: every prefix of a complete
	// frame, from 0 bytes up (a decoder must reject what is too short for its
	// fields, whatever the caller hands it)
	for _, t := range []int{1005, 1006} {
		full := ref.Frame(ref.EncodeStation(&ref.Station{Type: t, ID: 5, ITRF: 1, X: minC, Y: -1, Z: maxC, Height: 0xFFFF}, t == 1006, 2))
		need := 19 + 6
		if t == 1006 {
			need = 21 + 6
		}
		for cut := 0; cut <= len(full); cut++ {
			buf := full[:cut]
			for _, lvl := range []slog.Level{slog.LevelDebug, slog.LevelInfo} {
				var e5, e6 error
				var n5, n6 bool
				cl, site, p := guard(func() {
					m5, err5 := type1005.GetMessage(buf, lvl)
					m6, err6 := type1006.GetMessage(buf, lvl)
					e5, e6, n5, n6 = err5, err6, m5 == nil, m6 == nil
				})
				r.Count(1, 0, 2, 1)
				k := map[string]interface{}{"raw_prefix_of_frame_type": t, "prefix_bytes": cut, "buffer": ev.FullHex(buf)}
				if p {
					r.Violate(ev.Violation{Fingerprint: "C05 PANIC on a short raw buffer " + cl + "@" + site, What: fmt.Sprintf("decoder panics on a %d-byte buffer", cut), Case: k})
					continue
				}
				// only the decoder of the frame's own type may accept, and only a long enough buffer
				ok5 := t == 1005 && cut >= need
				ok6 := t == 1006 && cut >= need
				if (e5 == nil) != ok5 || (e6 == nil) != ok6 || (e5 != nil && !n5) || (e6 != nil && !n6) {
					r.Violate(ev.Violation{Fingerprint: "C05 short-or-mistyped-raw-buffer-not-rejected", What: fmt.Sprintf("%d-byte prefix of a %d frame: 1005 err=%v, 1006 err=%v", cut, t, e5, e6), Case: k})
				}
			}
		}
	}
	// dense sweeps for the display clause
	span := int64(1) << 12
	if thorough {
		span = 1 << 17
	}
	centres := []int64{0, maxC - span, minC + span}
	for k := uint(17); k <= 36; k += 1 {
		centres = append(centres, int64(1)<<k, -(int64(1) << k))
	}
	var sweeps int64
	parallelFor(len(centres), func(ci int) {
		c := centres[ci]
		var n int64
		for d := -span; d <= span; d++ {
			v := c + d
			if v < minC || v > maxC {
				continue
			}
			t, wh := 1005, false
			if d%2 == 0 {
				t, wh = 1006, true
			}
			k := stationCase{S: ref.Station{Type: t, ID: 1, X: v, Y: -v - 1, Z: v ^ 0x2AAAAAAAAA&maxC, Height: uint(v) & 0xFFFF}, WithHeight: wh, Truncate: -1}
			if k.S.Z > maxC || k.S.Z < minC {
				k.S.Z = 0
			}
			n++
			if dd := c05One(&k); dd != "" {
				r.Violate(ev.Violation{Fingerprint: "C05 " + firstWords(dd, 2), What: dd, Case: k, ReplayKind: "station"})
			}
		}
		r.Count(n, 0, 2*n, n)
		r.DistinctN += n
	})
	_ = sweeps
	parallelFor(len(cases), func(i int) {
		if dd := c05One(&cases[i]); dd != "" {
			r.Violate(ev.Violation{Fingerprint: "C05 " + firstWords(dd, 2), What: dd, Case: cases[i], ReplayKind: "station"})
			r.Outcome("mismatch")
		} else {
			r.Outcome("ok")
		}
		r.Count(1, 0, 2, 1)
		r.Distinct(fmt.Sprintf("%+v", cases[i]))
	})
	r.Sample(cases[0])
	r.Sample(cases[len(cases)-20])
	r.Extra["enumerated_field_cases"] = len(cases)
	r.Extra["dense_sweep_centres"] = len(centres)
	r.Extra["dense_sweep_halfwidth"] = span
}
