package props

import (
	"bytes"
	"encoding/json"
	"fmt"
	"log/slog"
	"sync/atomic"

	"verif/internal/ev"
	"verif/ref"

	"github.com/goblimey/go-ntrip/rtcm/handler"
)

func init() {
	Registry["C01"] = C01
	Replayers["stream"] = func(c json.RawMessage) (bool, string) {
		var k struct {
			Stream string `json:"stream"`
		}
		json.Unmarshal(c, &k)
		var s []byte
		fmt.Sscanf(k.Stream, "%x", &s)
		out, fault := implStream(s)
		bad := fault != ""
		for _, d := range out {
			if d.Type >= 0 && (!ref.IsFrame(d.Raw) || ref.FrameType(d.Raw) != d.Type) {
				bad = true
			}
		}
		return bad, fmt.Sprintf("fault=%q delivered=%v reference=%v", fault, showDelivered(out), showSegs(ref.Segment(s)))
	}
	Replayers["getmessage"] = func(c json.RawMessage) (bool, string) {
		var k struct {
			Buffer string `json:"buffer"`
		}
		json.Unmarshal(c, &k)
		var s []byte
		fmt.Sscanf(k.Buffer, "%x", &s)
		why := c01GetMessage(s)
		return why != "", "GetMessage: " + why
	}
}

// notFrameReason classifies why raw bytes are not one RTCM3 frame.
func notFrameReason(b []byte) string {
	switch {
	case len(b) < 7:
		return "shorter-than-minimal-frame"
	case b[0] != 0xD3:
		return "no-preamble"
	case b[1]&0xFC != 0:
		return "reserved-bits"
	}
	n := int(b[1]&3)<<8 | int(b[2])
	switch {
	case n == 0:
		return "zero-length"
	case len(b) > n+6:
		return "longer-than-declared-frame"
	case len(b) < n+6:
		return "shorter-than-declared-frame"
	}
	return "bad-crc"
}

// c01Stream applies the C01 oracle to one stream; returns a violation kind or "".
func c01Stream(s []byte) (kind string, out []delivered) {
	out, fault := implStream(s)
	if fault != "" {
		return "stream " + fault, out
	}
	for _, d := range out {
		if d.Type < 0 {
			continue
		}
		if !ref.IsFrame(d.Raw) {
			return "stream typed-message-not-a-frame reason=" + notFrameReason(d.Raw), out
		}
		if ref.FrameType(d.Raw) != d.Type {
			return "stream reported-type-differs-from-first-12-payload-bits", out
		}
	}
	return "", out
}

// c01GetMessage applies the single-frame oracle; returns a violation kind or "".
func c01GetMessage(b []byte) string {
	h := handler.New(frameStart, slog.LevelInfo)
	var m *handler.Message
	var err error
	in := append([]byte{}, b...)
	cl, site, p := guard(func() { m, err = h.GetMessage(in) })
	if p {
		return "GetMessage panic " + cl + "@" + site
	}
	if m == nil || m.MessageType < 0 || err != nil {
		return ""
	}
	if !ref.IsFrame(m.RawData) {
		return "GetMessage typed-without-error raw-not-a-frame reason=" + notFrameReason(m.RawData)
	}
	if ref.FrameType(m.RawData) != m.MessageType {
		return "GetMessage reported-type-differs-from-first-12-payload-bits"
	}
	// The returned frame must be the bytes at the start of the buffer.  (The
	// repository's own TestGetMessage passes a batch of frames and expects the
	// first one back without an error, so trailing bytes are legitimate.)
	if len(m.RawData) > len(b) || !bytes.Equal(m.RawData, b[:len(m.RawData)]) {
		return "GetMessage typed-without-error raw-not-a-prefix-of-input"
	}
	return ""
}

// C01: only complete CRC-valid frames are typed.
func C01(r *ev.Run) {
	thorough := r.Tier == "thorough"
	r.Rule = "S1: all strings up to length 6 (quick) / 8 (thorough) over alphabets {D3,00,01,02,p,c1,c2,c3} built from a valid 7-byte frame (three choices of p) and, thorough, a 9-symbol alphabet from an MSM-typed 8-byte frame; S2: all sequences of <=3 (quick) / <=4 (thorough, reduced menu for length 4) segments from a 27-entry menu; S3: single frames of every payload length (12 boundary lengths quick) and every type, with every single-bit flip, adjacent 2-bit burst, byte overwrite {00,FF,D3}, truncation and length-field edit, as stream and through GetMessage; S4: every value of the two bytes after 0xD3 (65536) followed by as many bytes as its 10-, 11-, ... 16-bit reading says (up to 1100 quick / 4200 thorough) and a CRC over the whole. Non-trivial = stream contains at least one 0xD3; distinct = distinct streams (hashed)"
	r.Assumptions = []string{"ref.IsFrame and the bitwise CRC-24Q in /verif/ref are the definition of 'exactly one RTCM3 frame'", "GetMessage clause: typed && err==nil implies the returned raw bytes are exactly one frame and are the leading bytes of the input (trailing input bytes are allowed, as the repository's TestGetMessage requires)"}
	streamFail := func(kind string, s []byte, out []delivered) {
		r.Violate(ev.Violation{Fingerprint: "C01 " + kind, What: kind,
			Case:     map[string]interface{}{"stream": ev.FullHex(s)},
			Expected: "every typed message is exactly one CRC-valid frame", Actual: showDelivered(out), ReplayKind: "stream"})
	}
	gmFail := func(kind string, b []byte) {
		r.Violate(ev.Violation{Fingerprint: "C01 " + kind, What: kind,
			Case: map[string]interface{}{"buffer": ev.FullHex(b)}, Expected: "typed && err==nil only for exactly one frame", ReplayKind: "getmessage"})
	}
	both := func(s []byte) {
		kind, out := c01Stream(s)
		if kind != "" {
			streamFail(kind, s, out)
		}
		typed := 0
		for _, d := range out {
			if d.Type >= 0 {
				typed++
			}
		}
		if typed > 0 {
			r.Outcome(fmt.Sprintf("typed=%d", min(typed, 4)))
		} else {
			r.Outcome("typed=0")
		}
		if len(s) > 0 {
			if k := c01GetMessage(s); k != "" {
				gmFail(k, s)
			}
		}
	}

	// S1 ---------------------------------------------------------------
	maxLen := 6
	if thorough {
		maxLen = 8
	}
	var alphabets [][]byte
	mk := func(payload []byte) []byte {
		f := ref.Frame(payload)
		set := map[byte]bool{}
		var a []byte
		for _, b := range append(append([]byte{}, f...), 0x00, 0x01, 0x02) {
			if !set[b] {
				set[b] = true
				a = append(a, b)
			}
		}
		return a
	}
	alphabets = append(alphabets, mk([]byte{0x41}), mk([]byte{0xD3}))
	for p := 0; p < 256; p++ {
		f := ref.Frame([]byte{byte(p)})
		if p != 0xD3 && (f[4] == 0xD3 || f[5] == 0xD3 || f[6] == 0xD3) {
			alphabets = append(alphabets, mk([]byte{byte(p)}))
			break
		}
	}
	if thorough {
		alphabets = append(alphabets, mk([]byte{0x43, 0x50})) // type 1077, 2-byte payload
	}
	var s1 int64
	for ai, alpha := range alphabets {
		ml := maxLen
		if len(alpha) > 8 && ml > 8 {
			ml = 8
		}
		var n, nt int64
		symbolStrings(alpha, ml, func(s []byte) {
			both(s)
		})
		k := int64(len(alpha))
		n = 0
		p := int64(1)
		for l := 0; l <= ml; l++ {
			n += p
			p *= k
		}
		// strings with no D3 are trivial (all junk): (k-1)^l of them
		p = 1
		for l := 0; l <= ml; l++ {
			nt += p
			p *= k - 1
		}
		s1 += n
		r.Count(n, n, 2*n, n)
		r.DistinctN += n - nt
		r.Extra[fmt.Sprintf("S1_alphabet_%d", ai)] = fmt.Sprintf("%x maxlen=%d strings=%d", alpha, ml, n)
	}
	r.Sample(map[string]interface{}{"enumeration": "S1", "alphabet": fmt.Sprintf("%x", alphabets[0]), "example_stream": fmt.Sprintf("%x", ref.Frame([]byte{0x41}))})

	// S2 ---------------------------------------------------------------
	menu := c01Menu()
	depth := 3
	sequences(len(menu), depth, func(idx []int) {
		s, _ := concatSegs(menu, idx)
		both(s)
		r.Count(1, 1, 2, 1)
		r.Distinct(string(s))
	})
	if thorough {
		// length 4 over the short entries only (keeps the product at ~20^4)
		var small []namedSeg
		for _, m := range menu {
			if len(m.Bytes) <= 80 {
				small = append(small, m)
			}
		}
		sequences(len(small), 4, func(idx []int) {
			if len(idx) < 4 {
				return
			}
			s, _ := concatSegs(small, idx)
			both(s)
			r.Count(1, 1, 2, 1)
			r.Distinct(string(s))
		})
	}
	_, names := concatSegs(menu, []int{14, 8, 21})
	r.Sample(map[string]interface{}{"enumeration": "S2", "segments": names})

	// S3 ---------------------------------------------------------------
	lengths := []int{1, 2, 3, 4, 5, 21, 22, 63, 64, 211, 255, 256, 467, 1023}
	if thorough {
		lengths = nil
		for l := 1; l <= 1023; l++ {
			lengths = append(lengths, l)
		}
	}
	types := []int{1005, 1077, 1084, 4095}
	parallelFor(len(lengths), func(i int) {
		L := lengths[i]
		t := types[L%len(types)]
		base := ref.TypedFrame(t, L, validTimestampFill)
		var n int64
		try := func(s []byte) {
			both(s)
			n++
		}
		try(base)
		nb := len(base) * 8
		stride := 1
		if L > 64 && !thorough {
			stride = 7 // quick: sample-free but sparse on long frames: every 7th bit (all alignments)
		}
		for b := 0; b < nb; b += stride {
			m := append([]byte{}, base...)
			m[b/8] ^= 0x80 >> uint(b%8)
			try(m)
			if b+1 < nb {
				m[(b+1)/8] ^= 0x80 >> uint((b+1)%8)
				try(m)
			}
		}
		for k := 0; k < len(base); k += stride {
			for _, v := range []byte{0x00, 0xFF, 0xD3} {
				if base[k] == v {
					continue
				}
				m := append([]byte{}, base...)
				m[k] = v
				try(m)
			}
		}
		for k := 0; k < len(base); k++ {
			try(base[:k])
		}
		// length-field edits: trailing bytes untouched, and CRC recomputed over the whole buffer
		lstep := 1
		if !thorough {
			lstep = 17
		}
		if thorough && L > 64 {
			lstep = 5
		}
		for nl := 0; nl <= 1023; nl += lstep {
			if nl == L {
				continue
			}
			m := append([]byte{}, base...)
			m[1], m[2] = byte(nl>>8), byte(nl)
			try(m)
			m2 := ref.WithCRC(m[:len(m)-3])
			try(m2)
		}
		// D8 shape: a buffer longer than its declared frame whose CRC is valid over the whole buffer
		for extra := 1; extra <= 3; extra++ {
			m := append([]byte{}, base[:len(base)-3]...)
			m = append(m, make([]byte, extra)...)
			for j := 0; j < extra; j++ {
				m[len(m)-1-j] = byte(0x30 + j)
			}
			try(ref.WithCRC(m))
		}
		r.Count(n, n, 2*n, n)
		r.DistinctN += n - 1
	})
	// every type at one length
	parallelFor(4096, func(t int) {
		for _, L := range []int{2, 4, 22} {
			f := ref.TypedFrame(t, L, validTimestampFill)
			both(f)
			g := append([]byte{}, f...)
			g[len(g)-1] ^= 1
			both(g)
		}
		r.Count(6, 6, 12, 6)
		r.DistinctN += 6
	})
	// S4: every value of the two bytes after 0xD3, followed by as many bytes as each
	// wider-than-10-bit reading of those bytes gives and a CRC over all of it: only
	// 'six zero bits + 10-bit length' may ever be taken as a frame
	maxN := 1100
	if thorough {
		maxN = 4200
	}
	parallelFor(256, func(hi int) {
		var n int64
		body := make([]byte, maxN)
		for i := range body {
			body[i] = validTimestampFill(i)
		}
		body[0], body[1] = 0x3E, 0xD0 // type 1005
		for lo := 0; lo < 256; lo++ {
			v := hi<<8 | lo
			seen := map[int]bool{}
			for w := 10; w <= 16; w++ {
				N := v & (1<<uint(w) - 1)
				if N == 0 || N > maxN || seen[N] {
					continue
				}
				seen[N] = true
				m := append([]byte{0xD3, byte(hi), byte(lo)}, body[:N]...)
				both(ref.WithCRC(m))
				n++
			}
		}
		r.Count(n, n, 2*n, n)
		atomic.AddInt64(&r.DistinctN, n)
	})
	r.Sample(map[string]interface{}{"enumeration": "S4", "leader": "d30400", "body_bytes": 1024, "note": "reserved bit set, 10-bit length 0, 11-bit reading 1024"})
	r.Sample(map[string]interface{}{"enumeration": "S3", "base_frame": ev.Hex(ref.TypedFrame(1077, 4, validTimestampFill)), "mutations": "bit flips, bursts, overwrites, truncations, length edits"})
	r.Extra["S3_payload_lengths"] = len(lengths)
	_ = s1
}
