package props

import (
	"bytes"
	"encoding/json"
	"fmt"
	"log/slog"
	"sync"
	"sync/atomic"

	"verif/internal/ev"
	"verif/ref"

	"github.com/goblimey/go-ntrip/rtcm/handler"
)

func init() {
	Registry["C02"] = C02Input
	Registry["C03"] = C03
	Registry["C12"] = C12
	Replayers["stream-lossless"] = func(c json.RawMessage) (bool, string) {
		var k struct {
			Stream string `json:"stream"`
		}
		json.Unmarshal(c, &k)
		var s []byte
		fmt.Sscanf(k.Stream, "%x", &s)
		kind, out := c02Stream(s)
		return kind != "", fmt.Sprintf("%s delivered=%v", kind, showDelivered(out))
	}
	Replayers["streams-one-handler-bytes"] = func(c json.RawMessage) (bool, string) {
		var k struct {
			Streams []string `json:"streams_through_one_handler"`
		}
		json.Unmarshal(c, &k)
		h := handler.New(frameStart, slog.LevelInfo)
		for i, hx := range k.Streams {
			var st []byte
			fmt.Sscanf(hx, "%x", &st)
			ms, fault := implHandleMessages(h, st)
			var cat []byte
			for _, m := range ms {
				cat = append(cat, m.RawData...)
			}
			if fault != "" || !bytes.Equal(cat, st) {
				return true, fmt.Sprintf("stream %d: %d bytes fed, %d delivered %s", i+1, len(st), len(cat), fault)
			}
		}
		return false, "every stream reproduced"
	}
	Replayers["streams-one-handler"] = func(c json.RawMessage) (bool, string) {
		var k struct {
			Streams []string `json:"streams_through_one_handler"`
		}
		json.Unmarshal(c, &k)
		h := handler.New(frameStart, slog.LevelInfo)
		for i, hx := range k.Streams {
			var s []byte
			fmt.Sscanf(hx, "%x", &s)
			ms, fault := implHandleMessages(h, s)
			var got []delivered
			for _, m := range ms {
				got = append(got, delivered{Type: m.MessageType, Raw: m.RawData})
			}
			if want := ref.Segment(s); fault != "" || !segsEqual(got, want) {
				return true, fmt.Sprintf("stream %d: fault=%q delivered=%v expected=%v", i+1, fault, showDelivered(got), showSegs(want))
			}
		}
		return false, "every stream segmented as if it were the first"
	}
	Replayers["stream-expected"] = func(c json.RawMessage) (bool, string) {
		var k struct {
			Stream   string   `json:"stream"`
			Expected []string `json:"expected_segments"`
		}
		json.Unmarshal(c, &k)
		var s []byte
		fmt.Sscanf(k.Stream, "%x", &s)
		out, fault := implStream(s)
		got := showDelivered(out)
		same := fault == "" && len(got) == len(k.Expected)
		for i := 0; same && i < len(got); i++ {
			same = got[i] == k.Expected[i]
		}
		return !same, fmt.Sprintf("fault=%q delivered=%v expected=%v", fault, got, k.Expected)
	}
}

// c02Stream applies the losslessness oracle to one stream.
func c02Stream(s []byte) (kind string, out []delivered) {
	out, fault := implStream(s)
	if fault != "" {
		return "stream " + fault, out
	}
	var cat []byte
	for _, d := range out {
		if len(d.Raw) == 0 {
			return "empty-message-delivered", out
		}
		cat = append(cat, d.Raw...)
	}
	if !bytes.Equal(cat, s) {
		switch {
		case len(cat) < len(s) && bytes.HasPrefix(s, cat):
			return "bytes-lost-at-end", out
		case len(cat) < len(s):
			return "bytes-lost", out
		case len(cat) > len(s):
			return "bytes-duplicated-or-invented", out
		default:
			return "bytes-altered-or-reordered", out
		}
	}
	return "", out
}

// junkRun is a run of n bytes none of which is 0xD3.
func junkRun(n int) []byte {
	b := make([]byte, n)
	for i := range b {
		b[i] = byte(i*7 + 1)
		if b[i] == 0xD3 {
			b[i] = 0x53
		}
	}
	return b
}

// junkRunLengths: lengths of 0xD3-free runs.  Scanners collect such a run in a
// buffer, so every buffer-size boundary matters: all lengths up to 300 and a
// window round every power of two up to 64K (quick); every length up to 8300
// as well (thorough).
func junkRunLengths(thorough bool) []int {
	seen := map[int]bool{}
	var out []int
	add := func(n int) {
		if n > 0 && !seen[n] {
			seen[n] = true
			out = append(out, n)
		}
	}
	top := 300
	if thorough {
		top = 8300
	}
	for n := 1; n <= top; n++ {
		add(n)
	}
	for b := 512; b <= 65536; b *= 2 {
		for d := -2; d <= 2; d++ {
			add(b + d)
		}
	}
	for _, n := range []int{1000, 1023, 1026, 1029, 2000, 3000, 4000, 5000, 8096, 10000} {
		for d := -1; d <= 1; d++ {
			add(n + d)
		}
	}
	return out
}

// C02Input is the input dimension of C02 (the schedule dimension runs under
// the controlled scheduler, see mc/).  It is merged into the C02 evidence by
// the driver.
func C02Input(r *ev.Run) {
	thorough := r.Tier == "thorough"
	fail := func(kind string, s []byte, out []delivered) {
		r.Violate(ev.Violation{Fingerprint: "C02 " + kind, What: kind,
			Case:     map[string]interface{}{"stream": ev.FullHex(s)},
			Expected: "concat(RawData) == input, no empty message", Actual: showDelivered(out), ReplayKind: "stream-lossless"})
	}
	one := func(s []byte) {
		kind, out := c02Stream(s)
		if kind != "" {
			fail(kind, s, out)
		}
		r.Outcome(fmt.Sprintf("messages=%d", min(len(out), 5)))
	}
	maxLen := 6
	if thorough {
		maxLen = 8
	}
	f := ref.Frame([]byte{0x41})
	alpha := []byte{0xD3, 0x00, 0x01, 0x02, 0x41, f[4], f[5], f[6]}
	var n int64
	symbolStrings(alpha, maxLen, func(s []byte) { one(s) })
	p := int64(1)
	var nt int64
	q := int64(1)
	for l := 0; l <= maxLen; l++ {
		n += p
		nt += q
		p *= int64(len(alpha))
		q *= int64(len(alpha) - 1)
	}
	r.Count(n, n, n, n)
	r.DistinctN += n - nt
	r.Sample(map[string]interface{}{"enumeration": "S1", "alphabet": fmt.Sprintf("%x", alpha), "max_len": maxLen})
	// endings inside leader / payload / CRC for every cut of longer frames
	for _, fr := range [][]byte{ref.TypedFrame(1005, 19, fillA), ref.TypedFrame(1077, 22, validTimestampFill), ref.TypedFrame(1087, 300, validTimestampFill)} {
		for pre := 0; pre < 3; pre++ {
			prefix := [][]byte{{}, {0x55, 0x66}, ref.TypedFrame(1230, 8, fillA)}[pre]
			for cut := 0; cut <= len(fr); cut++ {
				s := append(append([]byte{}, prefix...), fr[:cut]...)
				one(s)
				r.Count(1, 1, 1, 1)
				atomic.AddInt64(&r.DistinctN, 1)
			}
		}
	}
	menu := c01Menu()
	depth := 3
	sequences(len(menu), depth, func(idx []int) {
		s, _ := concatSegs(menu, idx)
		one(s)
		r.Count(1, 1, 1, 1)
		atomic.AddInt64(&r.DistinctN, 1)
	})
	_, names := concatSegs(menu, []int{16, 2, 21})
	r.Sample(map[string]interface{}{"enumeration": "S2", "segments": names})
	// S3: long 0xD3-free runs alone, before a frame, between frames and before a truncated frame
	lens := junkRunLengths(thorough)
	fr := ref.TypedFrame(1005, 19, fillA)
	var mu sync.Mutex
	parallelFor(len(lens), func(i int) {
		j := junkRun(lens[i])
		for v, s := range [][]byte{j, append(append([]byte{}, j...), fr...), append(append(append([]byte{}, fr...), j...), fr...), append(append([]byte{}, j...), fr[:9]...)} {
			if v > 1 && lens[i] > 300 && !thorough && lens[i]&(lens[i]-1) != 0 {
				continue
			}
			kind, out := c02Stream(s)
			mu.Lock()
			if kind != "" {
				fail(kind, s, out)
			}
			r.Count(1, 1, 1, 1)
			atomic.AddInt64(&r.DistinctN, 1)
			mu.Unlock()
		}
	})
	// S4: more messages than any 8- or 16-bit counter holds
	{
		tiny := ref.Frame([]byte{0x41})
		var long []byte
		for i := 0; i < 66000; i++ {
			long = append(long, tiny...)
			if i%257 == 0 {
				long = append(long, 'x', byte(i), 'y')
			}
		}
		one(long)
		r.Count(1, 1, 1, 1)
		atomic.AddInt64(&r.DistinctN, 1)
	}
	r.Sample(map[string]interface{}{"enumeration": "S3", "junk_run_lengths": len(lens), "longest": 65538})
	// S5: three consecutive streams through ONE handler with the real HandleMessages
	// (an application that reconnects keeps its handler): every stream is
	// reproduced, however the one before it ended
	f3 := ref.TypedFrame(1005, 19, fillA)
	firsts := [][]byte{{}, f3, append(append([]byte{}, f3...), []byte("$GP\r\n")...), []byte("x"), append(append([]byte{}, f3...), 0x0A), {0xD3}, f3[:2], f3[:4], f3[:9], f3[:len(f3)-1], append(append([]byte{}, f3...), 0xD3, 0x00)}
	var seconds [][]byte
	sequences(len(menu), 2, func(idx []int) {
		s, _ := concatSegs(menu, idx)
		seconds = append(seconds, s)
	})
	parallelFor(len(firsts), func(fi int) {
		for _, second := range seconds {
			h := handler.New(frameStart, slog.LevelInfo)
			for si, st := range [][]byte{firsts[fi], second, append(append([]byte{}, f3...), []byte("tail")...)} {
				ms, fault := implHandleMessages(h, st)
				var cat []byte
				for _, m := range ms {
					cat = append(cat, m.RawData...)
				}
				mu.Lock()
				r.Count(1, 1, 1, 1)
				atomic.AddInt64(&r.DistinctN, 1)
				bad := fault != "" || !bytes.Equal(cat, st)
				if bad {
					r.Violate(ev.Violation{Fingerprint: fmt.Sprintf("C02 stream-%d-on-one-handler not reproduced", si+1), What: fmt.Sprintf("stream %d through a handler that has already read %d stream(s): %d bytes fed, %d delivered %s", si+1, si, len(st), len(cat), fault),
						Case: map[string]interface{}{"streams_through_one_handler": []string{ev.FullHex(firsts[fi]), ev.FullHex(second), ev.FullHex(append(append([]byte{}, f3...), []byte("tail")...))}, "failing_stream": si + 1}, ReplayKind: "streams-one-handler-bytes"})
				}
				mu.Unlock()
				if bad {
					break
				}
			}
		}
	})
}

// c03 segment menu: valid frames and D3-free junk only.
func c03Menu(thorough bool) (frames, junk []namedSeg) {
	addF := func(name string, b []byte) { frames = append(frames, namedSeg{name, b, "frame"}) }
	addF("F1005/19", ref.TypedFrame(1005, 19, fillA))
	addF("F1077/22", ref.TypedFrame(1077, 22, validTimestampFill))
	addF("F0/1", ref.TypedFrame(0, 1, nil))
	addF("F4095/2", ref.TypedFrame(4095, 2, fillA))
	addF("F1084/4", ref.TypedFrame(1084, 4, fillA))
	addF("F1230/63", ref.TypedFrame(1230, 63, fillA))
	addF("F1006/64", ref.TypedFrame(1006, 64, fillA))
	addF("F1097/255", ref.TypedFrame(1097, 255, validTimestampFill))
	addF("F1127/256", ref.TypedFrame(1127, 256, validTimestampFill))
	addF("F1074/1022", ref.TypedFrame(1074, 1022, validTimestampFill))
	addF("F1087/1023", ref.TypedFrame(1087, 1023, validTimestampFill))
	addF("FpayloadD3", ref.TypedFrame(1019, 12, func(i int) byte {
		if i >= 2 {
			return 0xD3
		}
		return 0
	}))
	addF("FcrcD3", frameWithCRCContainingD3(1033, 9))
	addF("FlenLowByteD3/211", ref.TypedFrame(1019, 211, fillNoD3))
	addF("FlenLowByte00/256", ref.TypedFrame(1020, 256, fillNoD3))
	addF("FlastPayloadD3", ref.TypedFrame(1012, 5, func(i int) byte {
		if i == 4 {
			return 0xD3
		}
		return fillNoD3(i)
	}))
	// CRC values that code might use as 'nothing here': all zero, all ones, one bit, all 0xD3
	addF("Fcrc000000", ref.FrameWithCRC(1005, 19, fillA, 0x000000))
	addF("FcrcFFFFFF", ref.FrameWithCRC(1077, 22, validTimestampFill, 0xFFFFFF))
	addF("Fcrc000001", ref.FrameWithCRC(1230, 8, fillA, 0x000001))
	addF("FcrcD3D3D3", ref.FrameWithCRC(1006, 21, fillA, 0xD3D3D3))
	addJ := func(name string, b []byte) { junk = append(junk, namedSeg{name, b, "junk"}) }
	addJ("j1", []byte{0x0A})
	addJ("j2", []byte{0x24, 0x47})
	addJ("j7", []byte("$GPGSV\n"))
	addJ("nmea", nmea())
	addJ("ubx", ubx())
	_ = thorough
	return
}

// expectedSegs merges adjacent junk and appends the truncated tail.
func expectedSegs(parts []namedSeg, tail []byte) []ref.Seg {
	var out []ref.Seg
	for _, p := range parts {
		if p.Kind == "frame" {
			out = append(out, ref.Seg{Type: ref.FrameType(p.Bytes), Raw: p.Bytes})
			continue
		}
		if n := len(out); n > 0 && out[n-1].Type == -1 {
			out[n-1].Raw = append(append([]byte{}, out[n-1].Raw...), p.Bytes...)
		} else {
			out = append(out, ref.Seg{Type: -1, Raw: p.Bytes})
		}
	}
	if len(tail) > 0 {
		out = append(out, ref.Seg{Type: -1, Raw: tail})
	}
	return out
}

func classifyMismatch(got []delivered, want []ref.Seg) string {
	var gotFrames, wantFrames int
	for _, g := range got {
		if g.Type >= 0 {
			gotFrames++
		}
	}
	for _, w := range want {
		if w.Type >= 0 {
			wantFrames++
		}
	}
	switch {
	case gotFrames < wantFrames:
		return "valid-frame-missed"
	case gotFrames > wantFrames:
		return "spurious-typed-message"
	case len(got) > len(want):
		return "segment-split"
	case len(got) < len(want):
		return "segments-merged"
	}
	for i := range got {
		if got[i].Type != want[i].Type {
			return "segment-type-differs"
		}
		if !bytes.Equal(got[i].Raw, want[i].Raw) {
			return "segment-bytes-differ"
		}
	}
	return "unknown"
}

// C03: valid frames and D3-free junk are delivered exactly as constructed.
func C03(r *ev.Run) {
	thorough := r.Tier == "thorough"
	r.Rule = "all sequences of <=3 (quick) / <=4 (thorough) segments from 20 valid frames (11 types, payload lengths 1,2,4,5,9,12,19,22,63,64,211,255,256,1022,1023, payload/CRC/length byte containing 0xD3, CRC values 000000, FFFFFF, 000001 and D3D3D3) and 5 D3-free junk runs, each optionally followed by a frame truncated at every byte position; plus every payload length 1..1023 alone, between junk and back-to-back; plus a frame after, and frames round, a 0xD3-free run of every length 1..300 and round every power of two up to 64K (thorough: every length to 8300); expected output is the constructed segment list (adjacent junk merged); plus three consecutive streams through ONE handler with the real HandleMessages (fresh channels each time): a first stream ending at a frame boundary, in junk, or in a frame truncated after 1,2,3,4,5,6,10,n-3,n-1 bytes, then every sequence of <=2 menu segments, then frame+junk+frame, each stream segmented as if it were the first. Non-trivial = contains at least one valid frame; distinct = distinct streams"
	r.Assumptions = []string{"precondition of C03 holds by construction (junk has no 0xD3 byte; frames built by the reference encoder)"}
	frames, junk := c03Menu(thorough)
	menu := append(append([]namedSeg{}, frames...), junk...)
	check := func(parts []namedSeg, tail []byte) {
		var s []byte
		var names []string
		for _, p := range parts {
			s = append(s, p.Bytes...)
			names = append(names, p.Name)
		}
		s = append(s, tail...)
		want := expectedSegs(parts, tail)
		got, fault := implStream(s)
		r.Count(1, 1, 1, 1)
		atomic.AddInt64(&r.DistinctN, 1)
		if fault != "" {
			r.Violate(ev.Violation{Fingerprint: "C03 stream " + fault, What: fault,
				Case: map[string]interface{}{"stream": ev.FullHex(s), "segments": names, "tail_len": len(tail), "expected_segments": showSegs(want)}, ReplayKind: "stream-expected"})
			return
		}
		if !segsEqual(got, want) {
			kind := classifyMismatch(got, want)
			r.Violate(ev.Violation{Fingerprint: "C03 " + kind, What: kind + " in " + fmt.Sprint(names),
				Case:     map[string]interface{}{"stream": ev.FullHex(s), "segments": names, "tail_len": len(tail), "expected_segments": showSegs(want)},
				Expected: showSegs(want), Actual: showDelivered(got), ReplayKind: "stream-expected"})
		}
		r.Outcome(fmt.Sprintf("segments=%d", min(len(want), 6)))
	}
	depth := 3
	if thorough {
		depth = 4
	}
	// For depth 4 drop the two 1 KB frames from inner positions to bound the work.
	tailSrc := [][]byte{frames[0].Bytes, frames[3].Bytes, frames[11].Bytes, frames[14].Bytes[:40]}
	sequences(len(menu), depth, func(idx []int) {
		parts := make([]namedSeg, len(idx))
		big := 0
		for i, k := range idx {
			parts[i] = menu[k]
			if len(menu[k].Bytes) > 1000 {
				big++
			}
		}
		if len(idx) == 4 && big > 1 {
			return
		}
		check(parts, nil)
		// truncated tail at every byte position (short sequences only)
		if len(idx) <= 2 {
			for _, f := range tailSrc {
				for cut := 1; cut < len(f); cut++ {
					check(parts, f[:cut])
				}
			}
		}
	})
	// tails alone
	for _, f := range frames {
		step := 1
		if len(f.Bytes) > 300 && !thorough {
			step = 13
		}
		for cut := 1; cut < len(f.Bytes); cut += step {
			check(nil, f.Bytes[:cut])
		}
	}
	// every payload length
	lens := []int{}
	for l := 1; l <= 1023; l++ {
		// every payload length in both tiers (the sweep is cheap and lengths whose
		// leader bytes take special values - e.g. low byte 0xD3 at 211, 467, 723,
		// 979 - matter)
		lens = append(lens, l)
	}
	j := junk[2]
	parallelFor(len(lens), func(i int) {
		L := lens[i]
		t := []int{1005, 1077, 1124, 4094, 1}[L%5]
		f := namedSeg{fmt.Sprintf("F%d/%d", t, L), ref.TypedFrame(t, L, validTimestampFill), "frame"}
		check([]namedSeg{f}, nil)
		check([]namedSeg{j, f, j}, nil)
		check([]namedSeg{f, f}, nil)
		for _, g := range []int{0, 3, 8, 10} {
			check([]namedSeg{frames[g], f, frames[g]}, nil)
		}
		check([]namedSeg{f}, f.Bytes[:len(f.Bytes)/2])
	})
	r.Extra["payload_lengths_swept"] = len(lens)
	// every junk-run length: the frame after (and before) a long 0xD3-free run
	jl := junkRunLengths(thorough)
	parallelFor(len(jl), func(i int) {
		jr := namedSeg{fmt.Sprintf("junk%d", jl[i]), junkRun(jl[i]), "junk"}
		check([]namedSeg{jr, frames[0]}, nil)
		check([]namedSeg{frames[3], jr, frames[0]}, nil)
	})
	r.Extra["junk_run_lengths_swept"] = len(jl)
	// one stream with more messages than any 8- or 16-bit counter holds
	{
		var parts []namedSeg
		for i := 0; i < 66000; i++ {
			parts = append(parts, frames[i%3])
			if i%257 == 0 {
				parts = append(parts, junk[1])
			}
		}
		check(parts, nil)
	}
	// several streams through ONE handler with the real HandleMessages (an
	// application that reconnects keeps its handler): however the earlier stream
	// ended, the next is segmented as if it were the first
	toDelivered := func(ms []handler.Message) []delivered {
		var out []delivered
		for _, m := range ms {
			out = append(out, delivered{Type: m.MessageType, Raw: m.RawData, Err: m.ErrorMessage})
		}
		return out
	}
	type ending struct {
		name  string
		parts []namedSeg
		tail  []byte
	}
	endings := []ending{{"empty", nil, nil}, {"frame", []namedSeg{frames[0]}, nil}, {"frame+junk", []namedSeg{frames[0], junk[2]}, nil}, {"junk", []namedSeg{junk[0]}, nil}}
	tf := ref.TypedFrame(1077, 22, validTimestampFill)
	for _, cut := range []int{1, 2, 3, 4, 5, 6, 10, len(tf) - 3, len(tf) - 1} {
		endings = append(endings, ending{fmt.Sprintf("frame+truncated%d", cut), []namedSeg{frames[0]}, tf[:cut]})
		endings = append(endings, ending{fmt.Sprintf("truncated%d", cut), nil, tf[:cut]})
	}
	var seconds [][]namedSeg
	sequences(len(menu), 2, func(idx []int) {
		var ps []namedSeg
		for _, k := range idx {
			ps = append(ps, menu[k])
		}
		seconds = append(seconds, ps)
	})
	parallelFor(len(endings), func(ei int) {
		e := endings[ei]
		for _, second := range seconds {
			h := handler.New(frameStart, slog.LevelInfo)
			streams := []ending{e, {"second", second, nil}, {"third", []namedSeg{frames[1], junk[1], frames[0]}, nil}}
			for si, st := range streams {
				var in []byte
				var names []string
				for _, p := range st.parts {
					in = append(in, p.Bytes...)
					names = append(names, p.Name)
				}
				in = append(in, st.tail...)
				want := expectedSegs(st.parts, st.tail)
				ms, fault := implHandleMessages(h, in)
				got := toDelivered(ms)
				r.Count(1, 1, 1, 1)
				atomic.AddInt64(&r.DistinctN, 1)
				kind := ""
				if fault != "" {
					kind = "stream " + fault
				} else if !segsEqual(got, want) {
					kind = classifyMismatch(got, want)
				}
				if kind != "" {
					r.Violate(ev.Violation{Fingerprint: fmt.Sprintf("C03 stream-%d-on-one-handler %s", si+1, kind), What: fmt.Sprintf("%s in stream %d %v after a first stream ending in %s", kind, si+1, names, e.name),
						Case:     map[string]interface{}{"streams_through_one_handler": []string{ev.FullHex(streamBytes(streams[0].parts, streams[0].tail)), ev.FullHex(streamBytes(streams[1].parts, nil)), ev.FullHex(streamBytes(streams[2].parts, nil))}, "failing_stream": si + 1},
						Expected: showSegs(want), Actual: showDelivered(got), ReplayKind: "streams-one-handler"})
					break
				}
			}
		}
	})
	r.Extra["multi_stream_cases"] = len(endings) * len(seconds)
	r.Sample(map[string]interface{}{"segments": []string{"j7", "FcrcD3", "F0/1"}, "stream": ev.FullHex(append(append(append([]byte{}, junk[2].Bytes...), frames[12].Bytes...), frames[2].Bytes...))})
	r.Sample(map[string]interface{}{"segments": []string{"F1005/19"}, "truncated_tail_of": "F4095/2", "cut": 5})
}

func streamBytes(parts []namedSeg, tail []byte) []byte {
	var b []byte
	for _, p := range parts {
		b = append(b, p.Bytes...)
	}
	return append(b, tail...)
}

// C12: a frame corrupted in payload/CRC is discarded alone.
func C12(r *ev.Run) {
	thorough := r.Tier == "thorough"
	r.Rule = "streams of 3 segments (valid frames / D3-free junk) with the victim frame in each position; victim payload lengths 1,2,4,22,64,255 (thorough adds 1023); corruptions of payload+CRC only: every single-bit flip, every adjacent 2-bit flip, every byte overwritten with 00, FF, D3 and original^0x80, plus every pair of bytes (first/last payload byte, each CRC byte) set to D3, plus a complete CRC-valid frame of 7, 8 or 12 bytes (and the same with its CRC spoiled) written over every position of payload+CRC where it fits; only CRC-breaking corruptions are kept; expected = uncorrupted delivery with the victim replaced by one non-RTCM message of exactly its bytes; for streams without junk merging the time text, timestamp and error text of every other message must also equal those of the uncorrupted delivery (neighbours include header-only MSM frames of GPS, BeiDou and GLONASS, and the victim's own uncorrupted frame before and after it). Non-trivial = every case (each has a corrupted victim); distinct = distinct streams"
	frames, junk := c03Menu(thorough)
	msmGPS := namedSeg{"F1077/22-header", ref.HeaderOnlyMSM(1077, 5000), "frame"}
	msmBDS := namedSeg{"F1124/22-header", ref.HeaderOnlyMSM(1124, 5000), "frame"}
	msmGLO := namedSeg{"F1087/22-header", ref.HeaderOnlyMSM(1087, 1<<27|5000), "frame"}
	// "=victim": the uncorrupted frame itself as a neighbour - base stations repeat
	// 1005/1006/1230 unchanged, so a damaged copy next to a good one is the common case
	neigh := []namedSeg{frames[0], frames[2], frames[12], junk[2], junk[0], msmGPS, msmBDS, msmGLO, {"=victim", nil, "frame"}}
	vlens := []int{1, 2, 4, 22, 64, 255}
	if thorough {
		vlens = append(vlens, 1023)
	}
	type job struct {
		L, pos int
		a, b   namedSeg
	}
	var jobs []job
	for _, L := range vlens {
		for pos := 0; pos < 3; pos++ {
			for _, a := range neigh {
				for _, b := range neigh {
					if L >= 255 && !(a.Name == b.Name || thorough) {
						continue
					}
					jobs = append(jobs, job{L, pos, a, b})
				}
			}
		}
	}
	parallelFor(len(jobs), func(i int) {
		jb := jobs[i]
		t := []int{1077, 1005, 1124, 1087}[jb.L%4]
		victim := ref.TypedFrame(t, jb.L, validTimestampFill)
		if jb.L == 22 {
			// a complete MSM header with the same timestamp as the MSM neighbours, so
			// that the uncorrupted stream never crosses a roll-over
			ts := uint(5000)
			if t == 1087 {
				ts = 1<<27 | 5000
			}
			if t != 1005 {
				victim = ref.HeaderOnlyMSM(t, ts)
			}
		}
		if jb.a.Name == "=victim" {
			jb.a = namedSeg{"same-as-victim", victim, "frame"}
		}
		if jb.b.Name == "=victim" {
			jb.b = namedSeg{"same-as-victim", victim, "frame"}
		}
		// time fields of the uncorrupted delivery, for the differential clause
		cleanTimes := func(parts []namedSeg) []string {
			var s []byte
			for _, p := range parts {
				s = append(s, p.Bytes...)
			}
			out, _ := implStreamFull(s)
			return out
		}
		var n int64
		try := func(cor []byte, how string) {
			if ref.IsFrame(cor) {
				return // corruption did not break the CRC: outside the property
			}
			v := namedSeg{"victim", cor, "corrupt"}
			var parts []namedSeg
			switch jb.pos {
			case 0:
				parts = []namedSeg{v, jb.a, jb.b}
			case 1:
				parts = []namedSeg{jb.a, v, jb.b}
			default:
				parts = []namedSeg{jb.a, jb.b, v}
			}
			var s []byte
			var want []ref.Seg
			for _, p := range parts {
				s = append(s, p.Bytes...)
			}
			// only junk runs merge with junk runs
			prevJunk := false
			for _, p := range parts {
				switch p.Kind {
				case "frame":
					want = append(want, ref.Seg{Type: ref.FrameType(p.Bytes), Raw: p.Bytes})
					prevJunk = false
				case "corrupt":
					want = append(want, ref.Seg{Type: -1, Raw: p.Bytes})
					prevJunk = false
				default:
					if prevJunk {
						k := len(want) - 1
						want[k].Raw = append(append([]byte{}, want[k].Raw...), p.Bytes...)
					} else {
						want = append(want, ref.Seg{Type: -1, Raw: p.Bytes})
					}
					prevJunk = true
				}
			}
			got, fault := implStream(s)
			n++
			if fault != "" {
				r.Violate(ev.Violation{Fingerprint: "C12 stream " + fault, What: fault,
					Case: map[string]interface{}{"stream": ev.FullHex(s), "corruption": how, "expected_segments": showSegs(want)}, ReplayKind: "stream-expected"})
				return
			}
			// "every other segment is delivered exactly as it would have been": the
			// time text and error text of the other messages too, not only their bytes
			// (only when the uncorrupted stream is time-consistent: the victim is not
			// an MSM, or carries the same timestamp as the MSM neighbours)
			if segsEqual(got, want) && (t == 1005 || jb.L == 22) {
				clean := append([]namedSeg{}, parts...)
				vi := jb.pos
				clean[vi] = namedSeg{"victim-intact", victim, "frame"}
				ct := cleanTimes(clean)
				dt, _ := implStreamFull(s)
				if len(ct) == len(dt) {
					for k := range ct {
						if k != vi && ct[k] != dt[k] && len(want) == len(parts) {
							r.Violate(ev.Violation{Fingerprint: "C12 neighbour-fields-changed-by-the-corrupted-frame", What: fmt.Sprintf("segment %d: %q without the corruption, %q with it (%s)", k, ct[k], dt[k], how),
								Case: map[string]interface{}{"stream": ev.FullHex(s), "corruption": how, "victim_position": jb.pos, "expected_segments": showSegs(want)}, ReplayKind: "stream-expected"})
							break
						}
					}
				}
			}
			if !segsEqual(got, want) {
				kind := "neighbour-affected"
				for _, g := range got {
					if g.Type >= 0 && bytes.Equal(g.Raw, cor) {
						kind = "corrupted-frame-delivered-typed"
					}
				}
				if len(got) == len(want) {
					for k := range got {
						if want[k].Type == -1 && bytes.Equal(want[k].Raw, cor) && !bytes.Equal(got[k].Raw, cor) {
							kind = "corrupted-frame-bytes-not-delivered-alone"
						}
					}
				}
				r.Violate(ev.Violation{Fingerprint: "C12 " + kind, What: kind + " (" + how + ")",
					Case:     map[string]interface{}{"stream": ev.FullHex(s), "corruption": how, "victim_position": jb.pos, "expected_segments": showSegs(want)},
					Expected: showSegs(want), Actual: showDelivered(got), ReplayKind: "stream-expected"})
			}
		}
		lo, hi := 3, len(victim) // payload + CRC
		bitStride := 1
		if jb.L >= 255 {
			bitStride = 3
			if !thorough {
				bitStride = 11
			}
		}
		for b := lo * 8; b < hi*8; b += bitStride {
			m := append([]byte{}, victim...)
			m[b/8] ^= 0x80 >> uint(b%8)
			try(m, fmt.Sprintf("flip bit %d", b))
			if b+1 < hi*8 {
				m[(b+1)/8] ^= 0x80 >> uint((b+1)%8)
				try(m, fmt.Sprintf("flip bits %d,%d", b, b+1))
			}
		}
		byteStride := 1
		if jb.L >= 255 && !thorough {
			byteStride = 5
		}
		for k := lo; k < hi; k += byteStride {
			for _, v := range []byte{0x00, 0xFF, 0xD3, victim[k] ^ 0x80} {
				if v == victim[k] {
					continue
				}
				m := append([]byte{}, victim...)
				m[k] = v
				try(m, fmt.Sprintf("byte %d := %02x", k, v))
			}
		}
		special := []int{lo, hi - 4, hi - 3, hi - 2, hi - 1}
		for x := 0; x < len(special); x++ {
			for y := x + 1; y < len(special); y++ {
				m := append([]byte{}, victim...)
				m[special[x]], m[special[y]] = 0xD3, 0xD3
				try(m, fmt.Sprintf("bytes %d,%d := d3", special[x], special[y]))
			}
		}
		// a burst that happens to be a complete, CRC-valid frame of its own (7, 8 and
		// 12 bytes), written over every position of payload+CRC where it fits, and the
		// same with its last CRC byte spoiled (a plausible leader, nothing more)
		for _, emb := range [][]byte{ref.Frame([]byte{0x41}), ref.Frame([]byte{0x3e, 0xd0}), ref.TypedFrame(1005, 6, validTimestampFill)} {
			for k := lo; k+len(emb) <= hi; k += byteStride {
				m := append([]byte{}, victim...)
				copy(m[k:], emb)
				try(m, fmt.Sprintf("bytes %d..%d := a valid %d-byte frame", k, k+len(emb)-1, len(emb)))
				m2 := append([]byte{}, m...)
				m2[k+len(emb)-1] ^= 0x01
				try(m2, fmt.Sprintf("bytes %d..%d := a %d-byte frame with a wrong CRC", k, k+len(emb)-1, len(emb)))
			}
		}
		r.Count(n, n, n, n)
		r.DistinctN += n
		r.Outcome("checked")
		if i == 0 {
			r.Sample(map[string]interface{}{"victim": ev.FullHex(victim), "position": jb.pos, "neighbours": []string{jb.a.Name, jb.b.Name}, "corruptions": "see rule"})
		}
	})
	r.Outcome("discarded-alone")
}
