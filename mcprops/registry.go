// Package mcprops holds the engine-A (controlled scheduler) scenarios for the
// properties that are driven through go-ntrip's library packages.
package mcprops

import (
	"time"

	"verif/mc/harness"
)

// Props maps property ids to their engine-A definitions.
var Props = map[string]*harness.Prop{}

// T0 is the start time handed to handlers (a Wednesday noon).
var T0 = time.Date(2023, 5, 10, 12, 0, 0, 0, time.UTC)
