package mcprops

import (
	"bytes"
	"fmt"
	"log/slog"
	"time"

	"verif/internal/ev"
	"verif/mc/harness"
	"verif/mc/mcrt"
	"verif/props"
	"verif/ref"

	"github.com/goblimey/go-ntrip/rtcm/handler"
)

func init() {
	Props["C02"] = &harness.Prop{
		ID:          "C02",
		Rule:        "input dimension: every string up to length 6 (quick) / 8 (thorough) over {D3,00,01,02,p,c1,c2,c3}, every cut of three longer frames after three prefixes, every sequence of <=3 menu segments, through the sequential framing seam; three consecutive streams through one handler with the real HandleMessages (11 ways for the first to end x every <=2-segment second stream); schedule dimension: producer, HandleMessages and consumer threads under the controlled scheduler for every string up to length 4 (quick) / 6 (thorough) over {D3,00,01,41} plus 9 selected short streams plus 7 typed frames (1005, 1006, 1077, 1074, 1230, 1087, 4095) alone, after junk, truncated and in pairs, for every (input,output) channel capacity pair in {0,1,2}^2 (quick) / {0,1,2,3}^2 (thorough), plus bursts of 24 messages with a consumer that lags as far as the pipeline allows; all interleavings up to the stated preemption bound (all of them when the bound prunes nothing). Non-trivial = stream contains 0xD3 (input) / distinct schedule trace (schedules)",
		Assumptions: []string{"scheduling points are the channel operations of rtcm/handler and rtcm/pushback (instrumented at build time); code between two channel operations is atomic for this property, which is sound because the three threads share memory only through the two channels"},
		Pre:         func(r *ev.Run) { props.C02Input(r) },
		Scenarios:   c02Scenarios,
		QuickBudget: 45 * time.Second, ThoroughBudget: 8 * time.Minute,
	}
}

type c02Obs struct {
	msgs     []handler.Message
	closed   int
	returned bool
}

func c02Streams(tier string) [][]byte {
	var out [][]byte
	alpha := []byte{0xD3, 0x00, 0x01, 0x41}
	maxLen := 4
	if tier == "thorough" {
		maxLen = 6
	}
	var rec func(cur []byte)
	rec = func(cur []byte) {
		out = append(out, append([]byte{}, cur...))
		if len(cur) == maxLen {
			return
		}
		for _, a := range alpha {
			rec(append(cur, a))
		}
	}
	rec(nil)
	f := ref.Frame([]byte{0x41})
	g := ref.TypedFrame(1005, 2, nil)
	out = append(out,
		f,
		append([]byte{0x55, 0x66}, f...),
		append(append([]byte{}, f...), g[:5]...),
		append(append([]byte{}, f...), f...),
		[]byte{0xD3, 0x00},
		f[:4], f[:6],
		append(append([]byte{}, f[:6]...), 0xFF), // bad CRC
		append([]byte{0xD3, 0xFF, 0x00, 0x01, 0x02}, f...),
	)
	// typed frames of the kinds the applications see, alone and in pairs
	long := [][]byte{
		ref.TypedFrame(1005, 19, nil), ref.TypedFrame(1006, 21, nil),
		ref.TypedFrame(1077, 22, nil), ref.TypedFrame(1074, 7, nil), ref.TypedFrame(1230, 8, nil),
		ref.TypedFrame(1087, 3, nil), ref.TypedFrame(4095, 2, nil),
	}
	for i, a := range long {
		out = append(out, a, append([]byte("$G\n"), a...), a[:len(a)-2])
		for j, b := range long {
			if tier == "thorough" || (i+j)%3 == 0 {
				out = append(out, append(append([]byte{}, a...), b...))
			}
		}
	}
	return out
}

func c02Scenarios(tier string) []*mcrt.Scenario {
	caps := []int{0, 1, 2}
	bound := 1
	if tier == "thorough" {
		caps = []int{0, 1, 2, 3}
		bound = 2
	}
	var scs []*mcrt.Scenario
	for _, s := range c02Streams(tier) {
		for _, ci := range caps {
			for _, co := range caps {
				stream, ci, co := s, ci, co
				scs = append(scs, &mcrt.Scenario{
					Name:  fmt.Sprintf("stream=%x in=%d out=%d", stream, ci, co),
					Bound: bound, Horizon: 4000, Prune: true, Full: true,
					Body: func(x *mcrt.X) {
						obs := &c02Obs{}
						x.Data = obs
						in := make(chan byte, ci)
						out := make(chan handler.Message, co)
						mcrt.Go("producer", func() {
							for _, b := range stream {
								mcrt.Send(in, b)
							}
							mcrt.Close(in)
						})
						mcrt.Go("consumer", func() {
							for {
								m, ok := mcrt.Recv2(out)
								if !ok {
									obs.closed++
									return
								}
								obs.msgs = append(obs.msgs, m)
							}
						})
						h := handler.New(T0, slog.LevelInfo)
						h.HandleMessages(in, out)
						obs.returned = true
					},
					Check: func(x *mcrt.X) *mcrt.Failure {
						obs := x.Data.(*c02Obs)
						if len(x.Panics) > 0 {
							p := x.Panics[0]
							return &mcrt.Failure{Kind: "panic in " + p.Thread + ": " + firstLine(p.Value) + " @" + p.Site, Detail: p.Stack}
						}
						if x.End != mcrt.EndAllDone {
							return &mcrt.Failure{Kind: "threads-left-blocked end=" + x.End, Detail: fmt.Sprint(x.Blocked)}
						}
						var cat []byte
						for _, m := range obs.msgs {
							if len(m.RawData) == 0 {
								return &mcrt.Failure{Kind: "empty-message-delivered"}
							}
							cat = append(cat, m.RawData...)
						}
						if !bytes.Equal(cat, stream) {
							return &mcrt.Failure{Kind: "delivered-bytes-differ-from-input", Detail: fmt.Sprintf("got %x want %x", cat, stream)}
						}
						if obs.closed != 1 || !obs.returned {
							return &mcrt.Failure{Kind: "output-not-closed-exactly-once", Detail: fmt.Sprint(obs.closed, obs.returned)}
						}
						harness.Outcome(fmt.Sprintf("messages=%d", min(len(obs.msgs), 4)))
						return nil
					},
				})
			}
		}
	}
	// a consumer that lags as far as the pipeline lets it (it is scheduled only
	// when nothing else can run) behind a burst of 24 messages: anything that
	// queues messages inside the handler is filled to the brim
	var frag, tiny []byte
	for i := 0; i < 24; i++ {
		frag = append(frag, 0xD3, 0xFF, byte(i), 0x01, 0x02)
		tiny = append(tiny, ref.TypedFrame(1000+i, 1+i%3, func(k int) byte { return byte(i) })...)
	}
	for name, stream := range map[string][]byte{"24-bad-header-fragments": frag, "24-small-frames": tiny} {
		for _, cp := range [][2]int{{0, 0}, {1, 4}, {64, 0}} {
			stream, cp := stream, cp
			scs = append(scs, &mcrt.Scenario{
				Name:  fmt.Sprintf("lagging-consumer %s in=%d out=%d", name, cp[0], cp[1]),
				Bound: 1, Horizon: 100000, Prune: true,
				Body: func(x *mcrt.X) {
					obs := &c02Obs{}
					x.Data = obs
					in := make(chan byte, cp[0])
					out := make(chan handler.Message, cp[1])
					mcrt.Go("producer", func() {
						for _, b := range stream {
							mcrt.Send(in, b)
						}
						mcrt.Close(in)
					})
					mcrt.GoLow("consumer", func() {
						for {
							m, ok := mcrt.Recv2(out)
							if !ok {
								obs.closed++
								return
							}
							obs.msgs = append(obs.msgs, m)
						}
					})
					handler.New(T0, slog.LevelInfo).HandleMessages(in, out)
					obs.returned = true
				},
				Check: func(x *mcrt.X) *mcrt.Failure {
					obs := x.Data.(*c02Obs)
					if len(x.Panics) > 0 {
						p := x.Panics[0]
						return &mcrt.Failure{Kind: "panic in " + p.Thread + ": " + firstLine(p.Value) + " @" + p.Site, Detail: p.Stack}
					}
					if x.End != mcrt.EndAllDone {
						return &mcrt.Failure{Kind: "threads-left-blocked end=" + x.End, Detail: fmt.Sprint(x.Blocked)}
					}
					var cat []byte
					for _, m := range obs.msgs {
						cat = append(cat, m.RawData...)
					}
					if !bytes.Equal(cat, stream) {
						return &mcrt.Failure{Kind: "delivered-bytes-differ-from-input", Detail: fmt.Sprintf("lagging consumer, %d messages: got %x want %x", len(obs.msgs), cat, stream)}
					}
					if obs.closed != 1 || !obs.returned {
						return &mcrt.Failure{Kind: "output-not-closed-exactly-once"}
					}
					harness.Outcome("lagging consumer ok")
					return nil
				},
			})
		}
	}
	return scs
}

func firstLine(s string) string {
	for i := 0; i < len(s); i++ {
		if s[i] == '\n' {
			return s[:i]
		}
	}
	if len(s) > 80 {
		return s[:80]
	}
	return s
}
