package mcprops

import (
	"bufio"
	"fmt"
	"io"
	stdlog "log"
	"os"
	"sort"
	"strings"
	"time"

	"verif/mc/harness"
	"verif/mc/mcrt"

	"verif/ref"

	"github.com/goblimey/go-ntrip/apps/appcore"
	filehandler "github.com/goblimey/go-ntrip/file_handler"
	"github.com/goblimey/go-ntrip/jsonconfig"
	"github.com/goblimey/go-ntrip/rtcm/handler"
)

func init() {
	Props["C13"] = &harness.Prop{
		ID:             "C13",
		Rule:           "file_handler.Handle on the main thread over a scripted source under the controlled scheduler with a virtual clock: the source hands over one byte per Read; at EVERY Read (so at every byte position between and inside frames) the explorer may instead inject a run of 1, 2, 3 or 4 consecutive EOFs, 1 or 4 consecutive i/o timeouts, another error, a 3-byte chunk, or two bytes handed over TOGETHER with EOF, with a timeout or with another error (as io.Reader permits); after the data it reports EOF for ever or another error. Streams {frame, junk+frame, frame+frame, frame+truncated, frame+junk+frame, 1077/8}; tolerance settings {timeout 0 wait 0; timeout 0 wait 10 ms; timeout 5 ms wait 10 ms; timeout 50 ms wait 10 ms; timeout 50 ms wait 0}; message channel capacity {0,1}; the consumer may pause 200 ms (virtual) before accepting any message (one deviation per pause); all combinations of <=2 (quick) / <=3 (thorough) deviations (fault injections + preemptions), with state-key pruning; plus a real file that is still being written, opened through Config.WaitAndConnectToInput inside AppCore.HandleMessages (first part ending before, between and inside frames; the rest appended while the reader waits); an unbounded pass is not attempted because the number of fault placements is unbounded by construction. Non-trivial = distinct schedule/fault trace",
		Assumptions:    []string{"time is virtual: time.Now/time.Sleep of file_handler are routed to the scheduler's clock; a sleeping thread may be resumed at any later step and the clock then jumps to its wake time", "fault results are io.EOF, an error whose text contains 'i/o timeout', and 'connection reset by peer' as the other error", "'resumes within the tolerance' is judged on the handler's own clock: the run of consecutive EOF/timeout results ends before virtual time since its first result exceeds the configured timeout"},
		Scenarios:      c13Scenarios,
		QuickBudget:    60 * time.Second,
		ThoroughBudget: 10 * time.Minute,
	}
}

type c13Obs struct {
	src               *faultSrc
	log               *consumerLog
	err               error
	returned          bool
	returnedAt        time.Time
	suppliedAt        int // bytes supplied when Handle returned
	lastErr           error
	inRun             bool
	firstEOF          time.Time
	transientAtReturn int
}

func c13Scenarios(tier string) []*mcrt.Scenario {
	streams := pipelineStreams()
	use := []string{"frame", "junk+frame", "frame+truncated", "frame+junk+frame", "1077/8", "x"}
	f := streams["frame"]
	streams["frame+frame"] = append(append([]byte{}, f...), f...)
	use = append(use, "frame+frame")
	sort.Strings(use)
	type cfg struct {
		name          string
		timeout, wait uint
	}
	cfgs := []cfg{{"timeout=0", 0, 0}, {"timeout=50ms,wait=10ms", 50, 10}, {"timeout=50ms,wait=0", 50, 0},
		// the options are independent in the JSON: a retry pause without a tolerance, and a pause longer than the tolerance
		{"timeout=0,wait=10ms", 0, 10}, {"timeout=5ms,wait=10ms", 5, 10}}
	bound := 2
	if tier == "thorough" {
		bound = 3
	}
	var scs []*mcrt.Scenario
	for _, sn := range use {
		for _, c := range cfgs {
			for _, capN := range []int{0, 1} {
				stream, c, capN := streams[sn], c, capN
				scs = append(scs, &mcrt.Scenario{
					Name:  fmt.Sprintf("stream=%s %s chan=%d", sn, c.name, capN),
					Bound: bound, Horizon: 20000, Prune: true,
					Body: func(x *mcrt.X) {
						obs := &c13Obs{src: &faultSrc{data: stream}, log: &consumerLog{}}
						x.Data = obs
						msgChan := make(chan handler.Message, capN)
						// the consumer may pause for four times the tolerance before taking a message
						consumeSlowly("consumer", msgChan, obs.log, 200*time.Millisecond)
						conf := &jsonconfig.Config{TimeoutOnEOFMilliSeconds: c.timeout, WaitTimeOnEOFMilliseconds: c.wait}
						fh := filehandler.New(msgChan, conf)
						obs.err = fh.Handle(T0, bufio.NewReader(obs.src))
						obs.returned = true
						obs.returnedAt = mcrt.Now()
						obs.suppliedAt = obs.src.supplied
						obs.lastErr = obs.src.lastErr
						obs.inRun = obs.src.inRun
						obs.firstEOF = obs.src.firstEOF
						obs.transientAtReturn = obs.src.transient
					},
					Check: func(x *mcrt.X) *mcrt.Failure {
						obs := x.Data.(*c13Obs)
						faults := strings.Join(obs.src.faults, ",")
						if len(x.Panics) > 0 {
							p := x.Panics[0]
							return &mcrt.Failure{Kind: "panic in " + p.Thread + ": " + firstLine(p.Value) + " @" + p.Site, Detail: p.Stack + " faults=" + faults}
						}
						if x.End == mcrt.EndHorizon {
							return &mcrt.Failure{Kind: "handler-does-not-stop", Detail: "faults=" + faults}
						}
						if !obs.returned {
							return &mcrt.Failure{Kind: "handle-did-not-return end=" + x.End, Detail: fmt.Sprint(x.Blocked, " faults=", faults)}
						}
						if x.End != mcrt.EndAllDone {
							return &mcrt.Failure{Kind: "goroutines-left-blocked-after-return", Detail: fmt.Sprint(x.Blocked, " faults=", faults)}
						}
						if obs.log.closed != 1 {
							return &mcrt.Failure{Kind: "message-channel-not-closed-once", Detail: "faults=" + faults}
						}
						// (a)/(d): exactly the bytes supplied before the return, once, in order,
						// the partial frame as non-RTCM
						if ok, d := sameAsSequential(obs.log.msgs, stream[:obs.suppliedAt]); !ok {
							kind := "delivered-messages-differ-from-uninterrupted-framing-of-supplied-bytes"
							return &mcrt.Failure{Kind: kind, Detail: d + " faults=" + faults}
						}
						// (c) the error that made it stop is returned
						if obs.err == nil {
							return &mcrt.Failure{Kind: "returned-nil-error", Detail: "faults=" + faults}
						}
						if obs.err != obs.lastErr {
							return &mcrt.Failure{Kind: "returned-error-is-not-the-one-read", Detail: fmt.Sprintf("returned %v, source last gave %v; faults=%s", obs.err, obs.lastErr, faults)}
						}
						// "... or another read error occurs, the handler stops": not one more Read
						if obs.src.readsAfterOther > 0 {
							return &mcrt.Failure{Kind: "kept-reading-after-another-read-error", Detail: fmt.Sprintf("%d reads after the source had reported %q; faults=%s", obs.src.readsAfterOther, errOther, faults)}
						}
						transient := obs.err == io.EOF || strings.Contains(obs.err.Error(), "i/o timeout")
						if c.timeout == 0 && obs.transientAtReturn > 1 {
							// tolerance zero: the first EOF / timeout must stop the handler
							return &mcrt.Failure{Kind: "retried-although-tolerance-is-zero", Detail: fmt.Sprintf("%d EOF/timeout results were read before it stopped; faults=%s", obs.transientAtReturn, faults)}
						}
						if transient && c.timeout > 0 {
							// (b) must not give up while the silence is within the tolerance
							silence := obs.returnedAt.Sub(obs.firstEOF)
							if !obs.inRun || silence <= time.Duration(c.timeout)*time.Millisecond {
								return &mcrt.Failure{Kind: "gave-up-within-tolerance", Detail: fmt.Sprintf("silence %v, tolerance %dms; faults=%s", silence, c.timeout, faults)}
							}
							// ... and must not wait much longer than the tolerance either: the
							// retry loop checks once per timeout period, so it stops within two
							// periods plus the first wait (plus whatever other timers made it oversleep)
							limit := time.Duration(2*c.timeout+c.wait)*time.Millisecond + time.Duration(obs.log.pauses)*250*time.Millisecond
							if silence > limit {
								return &mcrt.Failure{Kind: "kept-retrying-far-beyond-the-tolerance", Detail: fmt.Sprintf("stopped after %v of silence, tolerance %dms (wait %dms); faults=%s", silence, c.timeout, c.wait, faults)}
							}
						}
						cls := "stopped-on-error"
						if transient {
							cls = "stopped-on-silence"
						}
						harness.Outcome(fmt.Sprintf("%s supplied=%d/%d faults=%d", cls, obs.suppliedAt, len(stream), len(obs.src.faults)))
						return nil
					},
				})
			}
		}
	}
	scs = append(scs, c13GrowingFile()...)
	return scs
}

// growObs: what a growing-file execution observed.  It is also the writer behind
// Config.SystemLog, where getInputFile reports every successful open.
type growObs struct {
	log            *consumerLog
	opens          int
	opensAtRemoval int
	gaveUp         bool // the file handler has logged that it gives up on EOF
}

func (g *growObs) Write(b []byte) (int, error) {
	if strings.Contains(string(b), "getInputFile: found") {
		g.opens++
	}
	if strings.Contains(string(b), "giving up on") {
		g.gaveUp = true
	}
	return len(b), nil
}

// c13GrowingFile: the source is a real file that is still being written,
// opened the way the applications open their input (Config.WaitAndConnectToInput
// inside AppCore.HandleMessages).  The reader meets end-of-file inside the
// second frame, the rest is appended while it waits (at the first moment nothing
// else can run, i.e. well within the tolerance), and the delivered messages
// must be those of the whole file.
func c13GrowingFile() []*mcrt.Scenario {
	var scs []*mcrt.Scenario
	f1, f2, f3 := ref.TypedFrame(1005, 19, nil), ref.TypedFrame(1077, 22, nil), ref.TypedFrame(1230, 8, nil)
	whole := append(append(append([]byte{}, f1...), f2...), f3...)
	for _, cut := range []int{0, len(f1), len(f1) + 5, len(f1) + len(f2) - 1, len(whole) - 1} {
		for _, capN := range []int{0, 1} {
			cut, capN := cut, capN
			scs = append(scs, &mcrt.Scenario{
				Name:  fmt.Sprintf("growing-file opened-by-WaitAndConnectToInput first-part=%dB chan=%d", cut, capN),
				Bound: 1, Horizon: 200000, Prune: true, MaxExecutions: 1500,
				Body: func(x *mcrt.X) {
					log := &consumerLog{}
					gf := &growObs{log: log}
					x.Data = gf
					dir, err := os.MkdirTemp("", "c13file")
					if err != nil {
						panic("harness: " + err.Error())
					}
					defer os.RemoveAll(dir)
					path := dir + "/input.rtcm"
					if err := os.WriteFile(path, whole[:cut], 0o644); err != nil {
						panic("harness: " + err.Error())
					}
					ch := make(chan handler.Message, capN)
					consume("consumer", ch, log)
					conf := &jsonconfig.Config{Filenames: []string{path}, TimeoutOnEOFMilliSeconds: 500, WaitTimeOnEOFMilliseconds: 20,
						SleepTimeAfterFailedOpenMilliSeconds: 50, ReadTimeoutMilliSeconds: 100,
						SystemLog: stdlog.New(gf, "", 0)}
					core := appcore.New(conf, []chan handler.Message{ch})
					mcrt.Go("AppCore.HandleMessages", func() { core.HandleMessages(T0) })
					// the writer of the file: acts only when nothing else can run
					mcrt.GoLow("file-writer", func() {
						mcrt.Yield("append the rest")
						if f, err := os.OpenFile(path, os.O_APPEND|os.O_WRONLY, 0); err == nil {
							f.Write(whole[cut:])
							f.Close()
						}
						mcrt.Sleep(300 * time.Millisecond) // within the tolerance; the reader retries every 20 ms
						gf.opensAtRemoval = gf.opens
						os.Remove(path) // so that the endless outer loop finds nothing to open again
						// the scenario ends once the reader has given up on the silent file
						// (timers may fire in any order, so wait for the event, not for a time)
						for i := 0; i < 50 && !gf.gaveUp; i++ {
							mcrt.Sleep(time.Second)
						}
						mcrt.Sleep(time.Second)
						mcrt.Stop()
					})
					mcrt.Sleep(time.Hour) // the main thread just waits for the Stop
				},
				Check: func(x *mcrt.X) *mcrt.Failure {
					gf := x.Data.(*growObs)
					log := gf.log
					if len(x.Panics) > 0 {
						p := x.Panics[0]
						return &mcrt.Failure{Kind: "panic in " + p.Thread + ": " + firstLine(p.Value) + " @" + p.Site, Detail: p.Stack}
					}
					if x.End != mcrt.EndStopped {
						return &mcrt.Failure{Kind: "growing-file scenario did not reach its end: " + x.End, Detail: fmt.Sprint(x.Blocked)}
					}
					if gf.opensAtRemoval != 1 || gf.opens != 1 {
						// schedules in which the file vanished before the program opened it, or
						// in which it was opened a second time: nothing to judge
						harness.Outcome(fmt.Sprintf("growing file not judged (opened %d times, %d before it was removed)", gf.opens, gf.opensAtRemoval))
						return nil
					}
					if ok, d := sameAsSequential(log.msgs, whole); !ok {
						return &mcrt.Failure{Kind: "delivered-messages-differ-from-uninterrupted-framing-of-supplied-bytes", Detail: "file still being written, opened through WaitAndConnectToInput: " + d}
					}
					harness.Outcome("growing file delivered whole")
					return nil
				},
			})
		}
	}
	return scs
}
