package mcprops

import (
	"bytes"
	"fmt"
	"log/slog"
	"time"

	"verif/internal/ev"
	"verif/mc/harness"
	"verif/mc/mcrt"
	"verif/props"
	"verif/ref"

	"github.com/goblimey/go-ntrip/rtcm/handler"
)

// C12 is decided by the fault enumeration of engine C (props.C12, run here as
// the in-process part); the scenarios below put the same situation - a frame
// corrupted in payload or CRC between good neighbours - through the real
// HandleMessages under the controlled scheduler with consumers that are slow
// to take a message, so that "delivered alone as non-RTCM" is also checked at
// the channel, whatever the timing.
func init() {
	Props["C12"] = &harness.Prop{
		ID:        "C12",
		Pre:       func(r *ev.Run) { props.Registry["C12"](r); r.Rule += c12SchedRule },
		Scenarios: c12Scenarios, QuickBudget: 20 * time.Second, ThoroughBudget: 2 * time.Minute,
	}
}

const c12SchedRule = "; plus, under the controlled scheduler with virtual time: streams {frame, victim, frame}, {junk, victim, frame}, {victim, victim', frame} and {frame, victim} (victim = a 1006 or 1077 frame with one payload bit or one CRC bit flipped) through Handler.HandleMessages on output channels of capacity 0 and 1 with a consumer that may pause 200 ms or 5 s before taking any message; every schedule with <=2 deviations (preemptions, pauses, timers landing first); every delivered sequence must be the reference segmentation of the stream: the victim alone as one non-RTCM message of exactly its bytes, neighbours untouched"

func c12Scenarios(tier string) []*mcrt.Scenario {
	good1 := ref.TypedFrame(1005, 19, nil)
	good2 := ref.TypedFrame(1230, 8, nil)
	flip := func(f []byte, at int) []byte {
		v := append([]byte{}, f...)
		v[at] ^= 0x10
		return v
	}
	v1 := flip(ref.TypedFrame(1006, 21, nil), 9)  // payload bit
	v2 := flip(ref.HeaderOnlyMSM(1077, 5000), 27) // last CRC byte
	cat := func(parts ...[]byte) []byte { return bytes.Join(parts, nil) }
	streams := map[string][]byte{
		"frame+victim+frame":  cat(good1, v1, good2),
		"junk+victim+frame":   cat([]byte("$GPGGA,1\r\n"), v2, good2),
		"victim+victim+frame": cat(v1, v2, good1),
		"frame+victim":        cat(good2, v1),
	}
	bound := 2
	var scs []*mcrt.Scenario
	for _, name := range []string{"frame+victim+frame", "junk+victim+frame", "victim+victim+frame", "frame+victim"} {
		for _, capN := range []int{0, 1} {
			for _, pause := range []time.Duration{200 * time.Millisecond, 5 * time.Second} {
				stream, capN, pause := streams[name], capN, pause
				scs = append(scs, &mcrt.Scenario{
					Name:  fmt.Sprintf("slow-consumer stream=%s out=%d pause=%v", name, capN, pause),
					Bound: bound, Horizon: 20000, Prune: true,
					Body: func(x *mcrt.X) {
						log := &consumerLog{}
						x.Data = log
						in := make(chan byte)
						out := make(chan handler.Message, capN)
						mcrt.Go("producer", func() {
							for _, b := range stream {
								mcrt.Send(in, b)
							}
							mcrt.Close(in)
						})
						consumeSlowly("consumer", out, log, pause)
						handler.New(T0, slog.LevelInfo).HandleMessages(in, out)
					},
					Check: func(x *mcrt.X) *mcrt.Failure {
						log := x.Data.(*consumerLog)
						if len(x.Panics) > 0 {
							p := x.Panics[0]
							return &mcrt.Failure{Kind: "panic in " + p.Thread + ": " + firstLine(p.Value) + " @" + p.Site, Detail: p.Stack}
						}
						if x.End != mcrt.EndAllDone {
							return &mcrt.Failure{Kind: "threads-left-blocked end=" + x.End, Detail: fmt.Sprint(x.Blocked)}
						}
						want := ref.Segment(stream)
						ok := len(log.msgs) == len(want)
						for i := 0; ok && i < len(want); i++ {
							ok = log.msgs[i].MessageType == want[i].Type && bytes.Equal(log.msgs[i].RawData, want[i].Raw)
						}
						if !ok {
							var g []string
							for _, m := range log.msgs {
								g = append(g, fmt.Sprintf("%d:%dB", m.MessageType, len(m.RawData)))
							}
							var w []string
							for _, s := range want {
								w = append(w, fmt.Sprintf("%d:%dB", s.Type, len(s.Raw)))
							}
							return &mcrt.Failure{Kind: "corrupted-frame-not-delivered-alone-to-a-slow-consumer", Detail: fmt.Sprintf("delivered %v, want %v", g, w)}
						}
						harness.Outcome("victim delivered alone")
						return nil
					},
				})
			}
		}
	}
	return scs
}
