package mcprops

import (
	"bytes"
	"crypto/sha256"
	"encoding/json"
	"fmt"
	"log/slog"
	"os"
	"os/exec"
	"reflect"
	"strings"
	"sync"
	"time"

	"verif/internal/ev"
	"verif/mc/harness"
	"verif/mc/mcrt"
	"verif/ref"

	"github.com/goblimey/go-ntrip/rtcm/handler"
)

// c15HandlerCopyable: copying the Handler struct gives an independent handler
// (no maps, slices or pointers in it); otherwise branches are rebuilt by replay.
var c15HandlerCopyable = ref.ValueCopyable(reflect.TypeOf(handler.Handler{}))

func init() {
	Props["C15"] = &harness.Prop{
		ID:             "C15",
		Rule:           "histories: alphabet of 29 inputs (incl. two pairs of MSM frames with the same type, length and CRC value but different contents, four MSM4/MSM7 frames whose cells and satellites carry the reserved 'invalid' values, three MSM frames that carry a time error from the handler and are also too short to decode) (1005, 1006, MSM4 and MSM7 of GPS, Galileo, GLONASS and BeiDou with cells, four MSM messages whose cell masks have the same value and length but the shapes 2x3, 3x2, 1x6 and 6x1, 1230, an unknown type, non-RTCM text, a CRC-broken frame); every sequence of length <=3 (quick) / <=4 (thorough) through ONE handler at both log levels; each element is decoded (Analyse) and displayed twice; oracle: decoded structure deep-equal and text (without the MSM time lines) equal to those of a fresh handler, second and third display identical, decoded fields after display deep-equal to those of an undisplayed twin, raw bytes unchanged, and every message decoded earlier in the history and still held is displayed again and deep-compared after each later frame (nothing may be shared between messages); value copies of a delivered message: what consumer A does with its copy (String, Analyse, field assignments) leaves consumer B's copy deep-equal to a pristine one, also when A displays first at a different log level or after the message was analysed; each input through a handler after which a handler of the other level was created (several handlers in one process); stream histories: every sequence of <=3 of nine inputs, each a stream of its own through HandleMessages on one handler, with every delivered message held and re-examined (raw bytes, text) after each later stream; each input also decoded and displayed as the first library call of a fresh process (one child process per input and level) and compared with the result after thousands of frames; non-RTCM messages of 1030..65537 bytes delivered by HandleMessages, displayed three times while a second consumer holds a copy. concurrency: two (thorough: also three) threads decoding and displaying frames on separate handlers and on value copies of one message, with scheduling points at every function and loop entry of rtcm/handler, rtcm/utils, rtcm/header and the six MSM and two station packages; every schedule with <=1 (quick) / <=2 (thorough) preemptions; oracle: every result equals the sequential baseline. Non-trivial = histories of length >=2 / distinct schedule traces",
		Assumptions:    []string{"interleavings inside unsynchronised code are explored at function/loop-entry granularity; 'no data race' at the memory-model level is outside a cooperative scheduler and only touched by the auxiliary -race pass", "the two MSM time lines ('Time ...', 'Start of ... week ...') are removed before comparing texts, as the statement excludes them"},
		Pre:            c15Histories,
		Scenarios:      c15Scenarios,
		QuickBudget:    60 * time.Second,
		ThoroughBudget: 10 * time.Minute,
	}
}

type c15Input struct {
	name  string
	bytes []byte
}

func c15Alphabet() []c15Input {
	var a []c15Input
	add := func(n string, b []byte) { a = append(a, c15Input{n, b}) }
	add("1005", ref.Frame(ref.EncodeStation(&ref.Station{Type: 1005, ID: 2, ITRF: 3, X: 38903500000, Y: -1234, Z: 50000}, false, 0)))
	add("1006", ref.Frame(ref.EncodeStation(&ref.Station{Type: 1006, ID: 2, ITRF: 3, X: -38903500000, Y: 1234, Z: -50000, Height: 12345}, true, 0)))
	for i, t := range []int{1074, 1077, 1094, 1097, 1084, 1087, 1124, 1127} {
		h := &ref.MSMHeader{Type: t, Station: uint(i + 1), Timestamp: uint(100000 * (i + 1)), SatMask: 0xA << 60, SigMask: 0x6 << 28, CellMask: []bool{true, false, true, true}}
		sats := []ref.MSMSat{{Whole: 70 + uint(i), Ext: 1, Frac: 100, Rate: -100}, {Whole: 80, Ext: 2, Frac: 900, Rate: 55}}
		sigs := []ref.MSMSig{{RangeDelta: 100, PhaseDelta: -200, Lock: 3, CNR: 40, RateDelta: 7}, {RangeDelta: -5, PhaseDelta: 6, Lock: 1, Half: true, CNR: 30, RateDelta: -9}, {RangeDelta: 1, PhaseDelta: 2, Lock: 2, CNR: 20, RateDelta: 3}}
		add(fmt.Sprint(t), ref.MSMFrame(h, sats, sigs, i%3))
	}
	// messages whose masks have the same numeric value and the same number of
	// bits but a different shape: a cache keyed on less than the full header
	// confuses them, and only in one order
	shape := func(name string, t int, nsat, nsig int) {
		cm := []bool{true, true, false, true, false, true}
		h := &ref.MSMHeader{Type: t, Station: 9, Timestamp: 777000, SatMask: ^uint64(0) << uint(64-nsat), SigMask: (^uint32(0) << uint(32-nsig)) >> 1, CellMask: cm}
		sats := make([]ref.MSMSat, nsat)
		for i := range sats {
			sats[i] = ref.MSMSat{Whole: 60 + uint(i), Ext: uint(i), Frac: uint(100 * i), Rate: int64(10 * i)}
		}
		sigs := make([]ref.MSMSig, 4)
		for i := range sigs {
			sigs[i] = ref.MSMSig{RangeDelta: int64(50*i + 1), PhaseDelta: int64(-70*i - 1), Lock: uint(i + 1), CNR: uint(20 + i), RateDelta: int64(i)}
		}
		add(name, ref.MSMFrame(h, sats, sigs, 0))
	}
	shape("1077-2x3", 1077, 2, 3)
	shape("1077-3x2", 1077, 3, 2)
	shape("1074-1x6", 1074, 1, 6)
	shape("1074-6x1", 1074, 6, 1)
	// cells and satellites carrying the reserved 'invalid' values, one field at a
	// time: display code treats these specially and must not normalise them in place
	for _, t := range []int{1077, 1074} {
		rd, pd := int64(-(1 << 19)), int64(-(1 << 23))
		if t == 1074 {
			rd, pd = -(1 << 14), -(1 << 21)
		}
		h := &ref.MSMHeader{Type: t, Station: 5, Timestamp: 432000, SatMask: 0xE << 60, SigMask: 0x4 << 28, CellMask: []bool{true, true, true}}
		sats := []ref.MSMSat{{Whole: 75, Ext: 3, Frac: 512, Rate: -77}, {Whole: 255, Ext: 15, Frac: 7, Rate: 12}, {Whole: 81, Ext: 0, Frac: 0, Rate: -(1 << 13)}}
		add(fmt.Sprintf("%d-invalid-range-delta", t), ref.MSMFrame(h, sats, []ref.MSMSig{{RangeDelta: rd, PhaseDelta: 9, Lock: 1, CNR: 33, RateDelta: 5}, {RangeDelta: 4, PhaseDelta: 2, Lock: 2, CNR: 34, RateDelta: 6}, {RangeDelta: rd, PhaseDelta: -3, Lock: 3, CNR: 35, RateDelta: -7}}, 0))
		add(fmt.Sprintf("%d-invalid-phase-and-rate-delta", t), ref.MSMFrame(h, sats, []ref.MSMSig{{RangeDelta: 11, PhaseDelta: pd, Lock: 1, CNR: 33, RateDelta: -(1 << 14)}, {RangeDelta: 4, PhaseDelta: pd, Lock: 2, CNR: 34, RateDelta: 6}, {RangeDelta: -12, PhaseDelta: -3, Lock: 3, CNR: 35, RateDelta: -(1 << 14)}}, 0))
	}
	// two messages of the same type, length and CRC value but different contents
	// (the three padding bytes are solved for the CRC): whatever is remembered
	// about a frame must be keyed on all of it
	for k, t := range []int{1077, 1074} {
		for v := 0; v < 2; v++ {
			h := &ref.MSMHeader{Type: t, Station: 6, Timestamp: 250000, SatMask: 0x9 << 60, SigMask: 0x5 << 28, CellMask: []bool{true, true, true, false}}
			sats := []ref.MSMSat{{Whole: 70 + uint(5*v), Ext: 2, Frac: 300 + uint(v), Rate: -40}, {Whole: 82, Ext: 1, Frac: 5, Rate: int64(9 + v)}}
			sigs := []ref.MSMSig{{RangeDelta: int64(100 + 1000*v), PhaseDelta: int64(-200 - 3000*v), Lock: 3, CNR: 40, RateDelta: 7}, {RangeDelta: -5, PhaseDelta: 6, Lock: 1, CNR: 30, RateDelta: -9}, {RangeDelta: 1, PhaseDelta: int64(2 + v), Lock: 2, CNR: 20, RateDelta: 3}}
			p, _ := ref.EncodeMSM(h, sats, sigs, 3)
			add(fmt.Sprintf("%d-same-crc-%c", t, 'A'+v), ref.PayloadFrameWithCRC(p, 0x5A5A5A+uint32(k)))
		}
	}
	// frames that carry an error from the handler AND fail to decode
	add("1077-short-illegal-ts", ref.TypedFrame(1077, 9, func(i int) byte { return 0xFF }))
	add("1117-short", ref.TypedFrame(1117, 9, nil))
	add("1087-short-day7", ref.TypedFrame(1087, 9, func(i int) byte {
		if i == 3 {
			return 0xE0
		}
		return 0
	}))
	add("1230", ref.TypedFrame(1230, 8, func(i int) byte { return byte(i * 3) }))
	add("unknown-4001", ref.TypedFrame(4001, 5, func(i int) byte { return byte(i) }))
	// the two ends of the 12-bit type space: a table or cache indexed by the type
	// must not let them meet each other or the negative 'not RTCM' value
	add("type-4095", ref.TypedFrame(4095, 5, func(i int) byte { return byte(i + 1) }))
	add("type-0", ref.TypedFrame(0, 5, func(i int) byte { return byte(i + 1) }))
	add("non-rtcm", []byte("$GPGGA,1*47\r\n"))
	bad := ref.TypedFrame(1005, 19, nil)
	bad[10] ^= 0x40
	add("crc-broken", bad)
	return a
}

// Fresh performs operation i of a property as the first library call of the
// process (mclib runs it when MC_FRESH is set) and returns a digest of the result.
func Fresh(id string, i int) string {
	if id != "C15" {
		return "no fresh-process operations for " + id
	}
	alpha := c15Alphabet()
	lvl := []slog.Level{slog.LevelDebug, slog.LevelInfo}[i%2]
	in := alpha[(i/2)%len(alpha)]
	res, fault := decodeDisplay(handler.New(T0, lvl), in.bytes)
	return c15Digest(res, fault)
}

func c15Digest(res c15Result, fault string) string {
	// (JSON, not %#v: nested pointers would print as addresses)
	fields, err := json.Marshal(res.readable)
	if err != nil {
		fields = []byte("unmarshalable: " + err.Error())
	}
	h := sha256.Sum256([]byte(fmt.Sprintf("%d|%s|%s|%s", res.typ, res.text, stripTimeErr(res.errMsg), fields)))
	return fmt.Sprintf("fault=%q digest=%x", fault, h[:8])
}

func stripTimeLines(s string) string {
	var out []string
	for _, l := range strings.Split(s, "\n") {
		if strings.HasPrefix(l, "Time ") || strings.HasPrefix(l, "Start of ") {
			continue
		}
		out = append(out, l)
	}
	return strings.Join(out, "\n")
}

type c15Result struct {
	msg      *handler.Message
	typ      int
	text     string
	readable interface{}
	errMsg   string
	// decoded structure of a twin message that was never displayed
	undisplayed interface{}
}

// decodeDisplay runs one input through GetMessage, Analyse and String (twice).
func decodeDisplay(h *handler.Handler, in []byte, withTwin ...bool) (res c15Result, fault string) {
	defer func() {
		if p := recover(); p != nil {
			if mcrt.Aborting() {
				panic(p) // the scheduler is tearing the execution down
			}
			fault = "panic while decoding or displaying: " + firstLine(fmt.Sprint(p))
		}
	}()
	orig := append([]byte{}, in...)
	buf := append([]byte{}, in...)
	pre := *h // the handler is a plain struct: a copy carries the same history
	m, _ := h.GetMessage(buf)
	if m == nil {
		return res, "nil message"
	}
	handler.Analyse(m)
	// an undisplayed twin from a handler with the same history: display must leave
	// the decoded fields as the decoder produced them
	var twin *handler.Message
	if len(withTwin) > 0 && withTwin[0] {
		if twin, _ = pre.GetMessage(append([]byte{}, in...)); twin != nil {
			handler.Analyse(twin)
		}
	}
	t1 := m.String()
	t2 := m.String()
	t3 := m.String()
	if t1 != t2 || t2 != t3 {
		return res, "repeated display differs from the first"
	}
	if twin != nil && !reflect.DeepEqual(m.Readable, twin.Readable) {
		return res, "display modified the decoded fields"
	}
	if !bytes.Equal(m.RawData, orig[:len(m.RawData)]) || !bytes.Equal(buf, orig) {
		return res, "raw bytes modified by decoding or display"
	}
	var und interface{}
	if twin != nil {
		und = twin.Readable
	}
	return c15Result{m, m.MessageType, stripTimeLines(t1), m.Readable, m.ErrorMessage, und}, ""
}

func sameResult(a, b c15Result) string {
	switch {
	case a.typ != b.typ:
		return "message type differs"
	case a.text != b.text:
		return "display text differs"
	case !reflect.DeepEqual(a.readable, b.readable):
		return "decoded structure differs"
	case stripTimeErr(a.errMsg) != stripTimeErr(b.errMsg):
		return "error text differs"
	}
	return ""
}

// time-conversion errors follow the handler's time history by design
func stripTimeErr(s string) string {
	if strings.Contains(s, "timestamp") || s == "unknown message type" {
		return ""
	}
	return s
}

func c15Histories(r *ev.Run) {
	alpha := c15Alphabet()
	depth := 3
	if r.Tier == "thorough" {
		depth = 4
	}
	fail := func(kind string, lvl slog.Level, hist []string, detail string) {
		r.Violate(ev.Violation{Fingerprint: "C15 history " + kind, What: kind + ": " + detail,
			Case: map[string]interface{}{"history": hist, "level": lvl.String()}, ReplayKind: "c15-history"})
	}
	for _, lvl := range []slog.Level{slog.LevelDebug, slog.LevelInfo} {
		base := make([]c15Result, len(alpha))
		for i, in := range alpha {
			res, fault := decodeDisplay(handler.New(T0, lvl), in.bytes, true)
			if fault != "" {
				fail(fault, lvl, []string{in.name}, "fresh handler")
			}
			base[i] = res
		}
		var n, tr int64
		type kept struct {
			m   *handler.Message
			idx int
		}
		var rec func(h handler.Handler, hist []int, held []kept)
		rec = func(h handler.Handler, hist []int, held []kept) {
			if len(hist) == depth {
				return
			}
			for i := range alpha {
				child := h // the handler is a plain struct: branching clones its state
				held := held
				if !c15HandlerCopyable {
					// it holds maps, slices or pointers: a fresh one, brought to this state by
					// replay - and the held messages are those of the replay, so that what they
					// share with THIS handler (scratch buffers, tables) is still shared
					child = *handler.New(T0, lvl)
					held = nil
					for _, k := range hist {
						if rr, rf := decodeDisplay(&child, alpha[k].bytes, true); rf == "" && rr.msg != nil {
							held = append(held, kept{rr.msg, k})
						}
					}
				}
				res, fault := decodeDisplay(&child, alpha[i].bytes, true)
				tr++
				var names []string
				for _, k := range append(append([]int{}, hist...), i) {
					names = append(names, alpha[k].name)
				}
				if fault != "" {
					fail(fault, lvl, names, "")
				} else if d := sameResult(res, base[i]); d != "" {
					fail("result-depends-on-earlier-frames: "+d, lvl, names, fmt.Sprintf("frame %s after %v", alpha[i].name, names[:len(names)-1]))
				}
				// messages decoded earlier and still held must not change when later
				// frames are decoded (no buffers or tables shared between messages)
				for hi, k := range held {
					var txt string
					cl, site, pn := guardM(func() { txt = stripTimeLines(k.m.String()) })
					tr++
					if pn {
						fail("panic re-displaying an earlier message "+cl+"@"+site, lvl, names, fmt.Sprintf("message %d (%s) after decoding %s", hi+1, alpha[k.idx].name, alpha[i].name))
					} else if txt != base[k.idx].text || !reflect.DeepEqual(k.m.Readable, base[k.idx].readable) {
						fail("earlier-message-changed-by-decoding-a-later-frame", lvl, names, fmt.Sprintf("message %d (%s) differs after decoding %s", hi+1, alpha[k.idx].name, alpha[i].name))
					}
				}
				n++
				if len(hist)+1 >= 2 {
					r.DistinctN++
				}
				nh := held
				if fault == "" && res.msg != nil {
					nh = append(append([]kept{}, held...), kept{res.msg, i})
				}
				rec(child, append(append([]int{}, hist...), i), nh)
			}
		}
		rec(*handler.New(T0, lvl), nil, nil)
		r.Count(n, 0, tr*4, n)
		// several handlers with different levels in one process: what a handler
		// delivers and displays must not depend on a handler created after it
		for i, in := range alpha {
			h := handler.New(T0, lvl)
			other := slog.LevelInfo
			if lvl == slog.LevelInfo {
				other = slog.LevelDebug
			}
			_ = handler.New(T0, other)
			res, fault := decodeDisplay(h, in.bytes)
			if fault != "" {
				fail(fault, lvl, []string{in.name}, "a handler of another level was created after this one")
			} else if d := sameResult(res, base[i]); d != "" {
				fail("result-depends-on-another-handler: "+d, lvl, []string{in.name}, "a handler of another level was created after this one")
			} else if res.msg != nil && base[i].msg != nil && res.msg.LogLevel != base[i].msg.LogLevel {
				fail("result-depends-on-another-handler: log level of the delivered message", lvl, []string{in.name}, fmt.Sprintf("%v, alone %v", res.msg.LogLevel, base[i].msg.LogLevel))
			}
			_ = handler.New(T0, lvl) // leave the process as a single-level one for what follows
			r.Count(1, 0, 3, 1)
		}
		// value copies handed to two consumers
		for i, in := range alpha {
			i, in := i, in
			func() {
				defer func() {
					if p := recover(); p != nil {
						fail("panic while a consumer used its copy: "+firstLine(fmt.Sprint(p)), lvl, []string{in.name}, "value copies")
					}
				}()
				h := handler.New(T0, lvl)
				m, _ := h.GetMessage(append([]byte{}, in.bytes...))
				a, b, pristine := *m, *m, *m
				_ = a.String()
				handler.Analyse(&a)
				// copies made after the message was decoded share the decoded structure:
				// A displaying its copy must not change what B sees in its own
				if m3, _ := handler.New(T0, lvl).GetMessage(append([]byte{}, in.bytes...)); m3 != nil {
					handler.Analyse(m3)
					a3, b3 := *m3, *m3
					_, _ = a3.String(), a3.String()
					if !reflect.DeepEqual(b3.Readable, base[i].undisplayed) {
						fail("consumer-copy-decoded-fields-changed-by-other-consumer-display", lvl, []string{in.name}, "B's decoded fields after A displayed its copy")
					}
				}
				a.ErrorMessage, a.MessageType, a.SentAt, a.Readable = "changed by consumer A", -5, "x", "junk"
				a.RawData = nil
				if !reflect.DeepEqual(b, pristine) {
					fail("consumer-copy-affected-by-other-consumer", lvl, []string{in.name}, "B's copy changed after A used its own")
				}
				// A chooses another display level for ITS copy and displays it first
				if m4, _ := handler.New(T0, lvl).GetMessage(append([]byte{}, in.bytes...)); m4 != nil {
					a4, b4 := *m4, *m4
					a4.LogLevel = slog.LevelInfo
					if lvl == slog.LevelInfo {
						a4.LogLevel = slog.LevelDebug
					}
					_ = a4.String()
					if t4 := stripTimeLines(b4.String()); t4 != base[i].text {
						fail("consumer-copy-display-follows-the-other-consumers-level", lvl, []string{in.name}, "B's display after A displayed its copy at another level")
					}
					if !reflect.DeepEqual(b4.Readable, base[i].readable) {
						fail("consumer-copy-decoded-fields-follow-the-other-consumers-level", lvl, []string{in.name}, "B's decoded structure after A displayed its copy at another level")
					}
				}
				tb := stripTimeLines(b.String())
				if tb != base[i].text {
					fail("consumer-copy-display-differs", lvl, []string{in.name}, "B's display after A used its copy")
				}
				r.Count(1, 0, 4, 1)
			}()
		}
	}
	// stream histories: each input as a stream of its own through HandleMessages on
	// ONE handler (what the applications run), every delivered message HELD while
	// later streams are read - the framing code may reuse nothing a held message
	// still points at
	{
		var sub []int
		for i, in := range alpha {
			switch in.name {
			case "1077", "1005", "1074", "1117-short", "1087-short-day7", "1077-short-illegal-ts", "crc-broken", "non-rtcm", "unknown-4001":
				sub = append(sub, i)
			}
		}
		type heldMsg struct {
			m    handler.Message
			raw  []byte
			text string
			from string
		}
		for _, lvl := range []slog.Level{slog.LevelDebug, slog.LevelInfo} {
			var nStream int64
			var rec func(h handler.Handler, hist []string, held []heldMsg, depth int)
			rec = func(h handler.Handler, hist []string, held []heldMsg, depth int) {
				if depth == 3 {
					return
				}
				for _, ai := range sub {
					child := h
					held := held
					if !c15HandlerCopyable {
						// fresh handler brought to this state by replay; the held messages are
						// those the replay delivered (they may share storage with this handler)
						child = *handler.New(T0, lvl)
						held = nil
						for _, nm := range hist {
							for _, a := range alpha {
								if a.name == nm {
									rin := make(chan byte, len(a.bytes)+1)
									for _, b := range a.bytes {
										rin <- b
									}
									close(rin)
									rout := make(chan handler.Message, len(a.bytes)+4)
									func() {
										defer func() { recover() }()
										child.HandleMessages(rin, rout)
									}()
								drain:
									for {
										select {
										case m, ok := <-rout:
											if !ok {
												break drain
											}
											if _, _, pn := guardM(func() { _ = m.String() }); !pn {
												held = append(held, heldMsg{m, append([]byte{}, m.RawData...), stripTimeLines(m.String()), a.name})
											}
										default:
											break drain
										}
									}
									break
								}
							}
						}
					}
					in := make(chan byte, len(alpha[ai].bytes)+1)
					for _, b := range alpha[ai].bytes {
						in <- b
					}
					close(in)
					out := make(chan handler.Message, len(alpha[ai].bytes)+4)
					names := append(append([]string{}, hist...), alpha[ai].name)
					var pan interface{}
					func() {
						defer func() { pan = recover() }()
						child.HandleMessages(in, out)
					}()
					nStream++
					if pan != nil {
						fail("panic in HandleMessages: "+firstLine(fmt.Sprint(pan)), lvl, names, "stream history")
						continue
					}
					nh := append([]heldMsg{}, held...)
					for m := range out {
						cl, _, pn := guardM(func() { _ = m.String() })
						if pn {
							fail("panic displaying a streamed message "+cl, lvl, names, "stream history")
							continue
						}
						nh = append(nh, heldMsg{m, append([]byte{}, m.RawData...), stripTimeLines(m.String()), alpha[ai].name})
					}
					// every message held from earlier streams (and this one) is as delivered
					for _, k := range nh {
						var txt string
						_, _, pn := guardM(func() { txt = stripTimeLines(k.m.String()) })
						if pn || !bytes.Equal(k.m.RawData, k.raw) || txt != k.text {
							fail("held-message-changed-while-later-streams-were-read", lvl, names, fmt.Sprintf("message from %s, held since it was delivered by HandleMessages", k.from))
							break
						}
					}
					rec(child, names, nh, depth+1)
				}
			}
			rec(*handler.New(T0, lvl), nil, nil, 0)
			r.Count(nStream, 0, nStream*3, nStream)
			r.DistinctN += nStream
		}
	}
	// each input decoded and displayed as the very first library call of a fresh
	// process ("whether the frame is processed first or after any other frames"):
	// one child process per (input, level)
	if exe, err := os.Executable(); err == nil {
		n := 2 * len(alpha)
		results := make([]string, n)
		var wg sync.WaitGroup
		sem := make(chan struct{}, 16)
		for i := 0; i < n; i++ {
			wg.Add(1)
			sem <- struct{}{}
			go func(i int) {
				defer wg.Done()
				defer func() { <-sem }()
				cmd := exec.Command(exe)
				cmd.Env = append(os.Environ(), "MC_PROP=C15", fmt.Sprintf("MC_FRESH=%d", i))
				out, err := cmd.Output()
				if err != nil {
					results[i] = "child failed: " + err.Error()
					return
				}
				results[i] = strings.TrimSpace(string(out))
			}(i)
		}
		wg.Wait()
		for i := 0; i < n; i++ {
			lvl := []slog.Level{slog.LevelDebug, slog.LevelInfo}[i%2]
			in := alpha[(i/2)%len(alpha)]
			res, fault := decodeDisplay(handler.New(T0, lvl), in.bytes) // this process has decoded thousands of frames by now
			want := c15Digest(res, fault)
			r.Count(1, 0, 2, 1)
			if strings.HasPrefix(results[i], "child failed") {
				r.Cap("fresh-process operation could not be run: " + results[i])
			} else if results[i] != want {
				fail("result-differs-when-the-frame-is-the-first-one-a-process-handles", lvl, []string{in.name}, fmt.Sprintf("fresh process %q, after many frames %q", results[i], want))
			}
		}
		r.Extra["fresh_process_first_frames"] = n
	}
	// very long non-RTCM messages (a text feed without a 0xD3 byte is delivered in
	// one piece): displayed three times by one consumer while another holds a copy
	for _, n := range []int{1030, 4096, 16383, 16384, 16385, 20000, 65537} {
		for _, lvl := range []slog.Level{slog.LevelDebug, slog.LevelInfo} {
			junk := make([]byte, n)
			for i := range junk {
				junk[i] = "$GPGGA,123519,4807.038,N,01131.000,E,1,08,0.9,545.4,M,46.9,M,,*47\r\n"[i%67]
			}
			in := make(chan byte, n+40)
			for _, b := range junk {
				in <- b
			}
			for _, b := range ref.TypedFrame(1005, 19, nil) {
				in <- b
			}
			close(in)
			out := make(chan handler.Message, 8)
			func() {
				defer func() {
					if p := recover(); p != nil {
						fail("panic handling a long non-RTCM message: "+firstLine(fmt.Sprint(p)), lvl, []string{fmt.Sprintf("non-rtcm-%d", n)}, "")
					}
				}()
				handler.New(T0, lvl).HandleMessages(in, out)
				var msgs []handler.Message
				for m := range out {
					msgs = append(msgs, m)
				}
				if len(msgs) != 2 || !bytes.Equal(msgs[0].RawData, junk) {
					return // framing is C02/C03's business
				}
				a, b := msgs[0], msgs[0]
				t1, t2, t3 := a.String(), a.String(), a.String()
				switch {
				case t1 != t2 || t2 != t3:
					fail("repeated display differs from the first", lvl, []string{fmt.Sprintf("non-rtcm-%d", n)}, "long message")
				case !bytes.Equal(a.RawData, junk) || !bytes.Equal(b.RawData, junk):
					fail("raw bytes modified by decoding or display", lvl, []string{fmt.Sprintf("non-rtcm-%d", n)}, "long message, both consumers' copies share the bytes")
				case b.String() != t1:
					fail("consumer-copy-display-differs", lvl, []string{fmt.Sprintf("non-rtcm-%d", n)}, "long message")
				}
				r.Count(1, 0, 5, 1)
			}()
		}
	}
	r.Sample(map[string]interface{}{"part": "histories", "history": []string{"1077", "non-rtcm", "1077"}, "alphabet": len(alpha)})
	r.Outcome("history-independent")
}

// ---- concurrency ----

type c15Obs struct {
	results map[string]c15Result
	faults  []string
}

func c15Scenarios(tier string) []*mcrt.Scenario {
	alpha := c15Alphabet()
	pick := func(names ...string) []c15Input {
		var out []c15Input
		for _, n := range names {
			for _, a := range alpha {
				if a.name == n {
					out = append(out, a)
				}
			}
		}
		return out
	}
	bound := 1
	if tier == "thorough" {
		bound = 2
	}
	type plan struct {
		name    string
		threads [][]c15Input
		shared  bool
	}
	plans := []plan{
		{"separate-handlers 1005|1006", [][]c15Input{pick("1005"), pick("1006")}, false},
		{"separate-handlers 1077|1074", [][]c15Input{pick("1077"), pick("1074")}, false},
		{"separate-handlers 1087,1005|1127,1230", [][]c15Input{pick("1087", "1005"), pick("1127", "1230")}, false},
		{"shared-message-copies 1077", [][]c15Input{pick("1077"), pick("1077")}, true},
		{"shared-message-copies 1006", [][]c15Input{pick("1006"), pick("1006")}, true},
	}
	if tier == "thorough" {
		plans = append(plans, plan{"three-handlers 1005|1077|1124", [][]c15Input{pick("1005"), pick("1077"), pick("1124")}, false})
	}
	// sequential baselines
	base := map[string]c15Result{}
	for _, a := range alpha {
		res, _ := decodeDisplay(handler.New(T0, slog.LevelDebug), a.bytes) // recovers panics itself
		base[a.name] = res
	}
	var scs []*mcrt.Scenario
	for _, pl := range plans {
		pl := pl
		scs = append(scs, &mcrt.Scenario{
			Name:  pl.name,
			Bound: bound, Horizon: 400000,
			Body: func(x *mcrt.X) {
				obs := &c15Obs{results: map[string]c15Result{}}
				x.Data = obs
				fin := make(chan bool, len(pl.threads))
				var shared *handler.Message
				if pl.shared {
					h := handler.New(T0, slog.LevelDebug)
					shared, _ = h.GetMessage(append([]byte{}, pl.threads[0][0].bytes...))
				}
				for ti, ins := range pl.threads {
					ti, ins := ti, ins
					var cp handler.Message
					if pl.shared {
						cp = *shared // the value copy a channel send would make
					}
					mcrt.Go(fmt.Sprintf("decoder%d", ti), func() {
						h := handler.New(T0, slog.LevelDebug)
						for k, in := range ins {
							key := fmt.Sprintf("%d/%d/%s", ti, k, in.name)
							if pl.shared {
								m := cp
								handler.Analyse(&m)
								t1 := m.String()
								obs.results[key] = c15Result{nil, m.MessageType, stripTimeLines(t1), m.Readable, m.ErrorMessage, nil}
								continue
							}
							res, fault := decodeDisplay(h, in.bytes)
							if fault != "" {
								obs.faults = append(obs.faults, key+": "+fault)
							}
							obs.results[key] = res
						}
						mcrt.Send(fin, true)
					})
				}
				for range pl.threads {
					mcrt.Recv(fin)
				}
			},
			Check: func(x *mcrt.X) *mcrt.Failure {
				obs := x.Data.(*c15Obs)
				if len(x.Panics) > 0 {
					p := x.Panics[0]
					return &mcrt.Failure{Kind: "panic in " + p.Thread + ": " + firstLine(p.Value) + " @" + p.Site, Detail: p.Stack}
				}
				if x.End != mcrt.EndAllDone {
					return &mcrt.Failure{Kind: "did-not-finish end=" + x.End, Detail: fmt.Sprint(x.Blocked)}
				}
				if len(obs.faults) > 0 {
					return &mcrt.Failure{Kind: "concurrent " + obs.faults[0][strings.Index(obs.faults[0], ": ")+2:], Detail: fmt.Sprint(obs.faults)}
				}
				for key, res := range obs.results {
					name := key[strings.LastIndex(key, "/")+1:]
					if d := sameResult(res, base[name]); d != "" {
						return &mcrt.Failure{Kind: "concurrent-result-differs-from-sequential: " + d, Detail: key}
					}
				}
				harness.Outcome("equal-to-sequential")
				return nil
			},
		})
	}
	return scs
}

// guardM runs f and reports a panic as (class, site, true).
func guardM(f func()) (class, site string, panicked bool) {
	defer func() {
		if p := recover(); p != nil {
			class, site, panicked = firstLine(fmt.Sprint(p)), "", true
		}
	}()
	f()
	return
}
