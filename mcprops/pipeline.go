package mcprops

import (
	"bytes"
	"errors"
	"fmt"
	"io"
	"time"

	"verif/mc/mcrt"
	"verif/props"
	"verif/ref"

	"github.com/goblimey/go-ntrip/rtcm/handler"
)

// chunkSrc is a byte source whose every underlying Read is an environment
// choice of how much to hand over: everything, one byte or two bytes.
type chunkSrc struct {
	data  []byte
	pos   int
	reads int
}

func (s *chunkSrc) Read(p []byte) (int, error) {
	s.reads++
	// bufio refills only when its buffer is empty and the reading loop keeps no
	// other state, so at this point the reader thread's state is the position
	mcrt.ResetLocal(uint64(s.pos) + 1)
	if s.pos >= len(s.data) {
		return 0, io.EOF
	}
	left := len(s.data) - s.pos
	n := left
	if left > 1 {
		// a non-default chunk size is a deviation like a preemption; the
		// unbounded pass explores every chunking
		c := mcrt.Choose(3, "chunk")
		switch c {
		case 1:
			n = 1
		case 2:
			n = 2
		}
	}
	if n > len(p) {
		n = len(p)
	}
	copy(p, s.data[s.pos:s.pos+n])
	s.pos += n
	// io.Reader allows the last data and io.EOF to come from the same call
	if s.pos == len(s.data) && mcrt.Choose(2, "eof-with-last-data") == 1 {
		return n, io.EOF
	}
	return n, nil
}

// faultSrc delivers one byte per Read by default; every Read is a choice point
// at which the explorer may instead inject a run of EOFs, a run of timeouts or
// another error.  After the data it reports EOF for ever (or, as an
// alternative, another error).
type faultSrc struct {
	data            []byte
	pos             int
	pending         []error // queued fault results still to deliver
	supplied        int
	firstEOF        time.Time // virtual time of the first EOF/timeout of the current run
	inRun           bool
	lastErr         error
	faults          []string
	eofRuns         []int
	afterData       int  // reads after the data ran out
	sawOther        bool // the source has reported 'another read error'
	readsAfterOther int  // Read calls made after that
	transient       int  // EOF / timeout results handed over so far
	lastErrAt       time.Time
}

var errTimeout = errors.New("read tcp 127.0.0.1:2101: i/o timeout")
var errOther = errors.New("connection reset by peer")

func (s *faultSrc) Read(p []byte) (int, error) {
	if mcrt.Aborting() {
		return 0, errOther
	}
	if s.sawOther {
		s.readsAfterOther++
	}
	withData := error(nil) // an error to hand over TOGETHER with the next data, as io.Reader allows
	nbytes := 1
	if len(s.pending) == 0 {
		if s.pos < len(s.data) {
			switch c := mcrt.Choose(12, "read"); c {
			case 1, 2, 3, 4: // EOF run of length c
				for i := 0; i < c; i++ {
					s.pending = append(s.pending, io.EOF)
				}
				s.faults = append(s.faults, fmt.Sprintf("EOFx%d@%d", c, s.pos))
			case 5:
				s.pending = append(s.pending, errTimeout)
				s.faults = append(s.faults, fmt.Sprintf("timeoutx1@%d", s.pos))
			case 6:
				s.pending = append(s.pending, errTimeout, errTimeout, errTimeout, errTimeout)
				s.faults = append(s.faults, fmt.Sprintf("timeoutx4@%d", s.pos))
			case 7:
				s.pending = append(s.pending, errOther)
				s.faults = append(s.faults, fmt.Sprintf("error@%d", s.pos))
			case 8: // as many bytes as the caller's buffer takes (up to 3), no error
				nbytes = 3
				s.faults = append(s.faults, fmt.Sprintf("chunk3@%d", s.pos))
			case 9: // data and EOF in the same call
				nbytes, withData = 2, io.EOF
				s.faults = append(s.faults, fmt.Sprintf("data+EOF@%d", s.pos))
			case 10:
				nbytes, withData = 2, errTimeout
				s.faults = append(s.faults, fmt.Sprintf("data+timeout@%d", s.pos))
			case 11:
				nbytes, withData = 2, errOther
				s.faults = append(s.faults, fmt.Sprintf("data+error@%d", s.pos))
			}
		} else {
			s.afterData++
			if s.afterData == 1 && mcrt.Choose(2, "end") == 1 {
				s.pending = append(s.pending, errOther)
				s.faults = append(s.faults, "error@end")
			} else {
				s.pending = append(s.pending, io.EOF)
			}
		}
	}
	if len(s.pending) > 0 {
		e := s.pending[0]
		s.pending = s.pending[1:]
		s.noteErr(e)
		return 0, e
	}
	s.inRun = false
	n := nbytes
	if n > len(p) {
		n = len(p)
	}
	if n > len(s.data)-s.pos {
		n = len(s.data) - s.pos
	}
	copy(p, s.data[s.pos:s.pos+n])
	s.pos += n
	s.supplied = s.pos
	if withData != nil {
		s.noteErr(withData)
		return n, withData
	}
	return n, nil
}

func (s *faultSrc) noteErr(e error) {
	if e == io.EOF || e == errTimeout {
		s.transient++
		if !s.inRun {
			s.inRun = true
			s.firstEOF = mcrt.Now()
		}
	}
	if e == errOther {
		s.sawOther = true
	}
	s.lastErr = e
	s.lastErrAt = mcrt.Now()
}

type consumerLog struct {
	msgs   []handler.Message
	closed int
	pauses int
}

// consumeSlowly is consume for a consumer that may take a long (virtual) time
// before it accepts the next message: each pause is one deviation.
func consumeSlowly(name string, ch chan handler.Message, log *consumerLog, pause time.Duration) {
	mcrt.Go(name, func() {
		for {
			if mcrt.Choose(2, "consumer-pause") == 1 {
				log.pauses++
				mcrt.Sleep(pause)
			}
			m, ok := mcrt.Recv2(ch)
			if !ok {
				log.closed++
				return
			}
			log.msgs = append(log.msgs, m)
		}
	})
}

// consume runs a consumer thread that reads until its channel is closed.
func consume(name string, ch chan handler.Message, log *consumerLog) {
	mcrt.Go(name, func() {
		for {
			m, ok := mcrt.Recv2(ch)
			if !ok {
				log.closed++
				return
			}
			log.msgs = append(log.msgs, m)
		}
	})
}

// sameAsSequential compares a consumer's messages with sequential framing.
func sameAsSequential(got []handler.Message, stream []byte) (bool, string) {
	want, fault := props.SequentialFraming(stream)
	if fault != "" {
		return false, "sequential framing itself failed: " + fault
	}
	ok := len(got) == len(want)
	for i := 0; ok && i < len(got); i++ {
		ok = got[i].MessageType == want[i].Type && bytes.Equal(got[i].RawData, want[i].Raw)
	}
	if ok {
		return true, ""
	}
	var g, w []string
	for _, m := range got {
		g = append(g, fmt.Sprintf("%d:%x", m.MessageType, m.RawData))
	}
	for _, m := range want {
		w = append(w, fmt.Sprintf("%d:%x", m.Type, m.Raw))
	}
	return false, fmt.Sprintf("got %v want %v", g, w)
}

// pipelineStreams are the small streams that force every shortcut of the framing code.
func pipelineStreams() map[string][]byte {
	f := ref.Frame([]byte{0x41})
	g := ref.TypedFrame(1005, 3, nil)
	bad := append([]byte{}, f...)
	bad[5] ^= 0x01
	return map[string][]byte{
		"empty":            {},
		"x":                {0x55},
		"D3":               {0xD3},
		"junk":             {0x24, 0x47, 0x0A},
		"frame":            f,
		"junk+frame":       append([]byte{0x24, 0x47}, f...),
		"frame+junk+frame": append(append(append([]byte{}, f...), 0x0A), g...),
		"frame+truncated":  append(append([]byte{}, f...), g[:5]...),
		"badcrc+frame":     append(append([]byte{}, bad...), f...),
		"1005/19":          ref.TypedFrame(1005, 19, nil),
		"1077/8":           ref.TypedFrame(1077, 8, nil),
		// valid frames that carry an error from the time conversion (a
		// constellation without week logic; GLONASS day 7): typed all the same
		"qzss1117/8+frame": append(ref.TypedFrame(1117, 8, nil), f...),
		"glonass-day7": ref.TypedFrame(1087, 8, func(i int) byte {
			if i == 3 {
				return 0xE0
			}
			return 0
		}),
	}
}
