package mcprops

import (
	"fmt"
	"sort"
	"strconv"
	"strings"
	"time"

	"verif/internal/ev"
	"verif/mc/harness"
	"verif/mc/mcrt"

	cq "github.com/goblimey/go-ntrip/apps/proxy/circular_queue"
	"github.com/goblimey/go-ntrip/rtcm/handler"
)

func init() {
	Props["C18"] = &harness.Prop{
		ID:             "C18",
		Rule:           "sequential: explicit-state breadth-first search over the real queue for capacities 1..8 with operations {Add(next id), GetMessages}; states canonicalised by subtracting the smallest key; every transition compared with a slice model; plus runs of 7x10^4 additions per capacity (past every 16-bit counter) with a snapshot after every addition, and runs across the 2^7, 2^8, 2^15, 2^16, 2^31 and 2^32th addition (the exported index is set to what that many additions leave, on 64-bit builds). and runs of 3N+5 additions for capacities 9..1000 (15 values round powers of two and the proxy's 20). concurrent: capacities 1 and 2, thread sets {adder(2 adds), adder(1 add), reader(2 snapshots)} and {adder(3 adds), reader, reader}, scheduling points at every lock operation and at every function and loop entry of the queue package, all schedules with <=2 (quick) / <=3 (thorough) preemptions; every recorded call/return history is checked for linearizability against the slice model by exhaustive search over linearisation orders. Non-trivial = distinct schedule trace / distinct canonical state",
		Assumptions:    []string{"canonicalisation: Add and GetMessages depend only on the order and number of the keys and on NextIndex being above every key, which is asserted in every state", "interleavings inside the unsynchronised code are explored at function/loop-entry granularity (yield points inserted by the instrumenter); the memory-model clause 'no data race' is outside what the cooperative scheduler observes and is only touched by the auxiliary free-running -race pass", "RWMutex writer preference is not modelled (superset of interleavings)"},
		Pre:            c18Sequential,
		Scenarios:      c18Scenarios,
		QuickBudget:    60 * time.Second,
		ThoroughBudget: 10 * time.Minute,
	}
}

func msg(id int) handler.Message { return handler.Message{MessageType: id} }

func ids(ms []handler.Message) []int {
	out := make([]int, len(ms))
	for i, m := range ms {
		out[i] = m.MessageType
	}
	return out
}

// model is the boring reference: the last n ids.
func modelAdd(state []int, n, id int) []int {
	state = append(append([]int{}, state...), id)
	if len(state) > n {
		state = state[len(state)-n:]
	}
	return state
}

func canon(q *cq.CircularQueue) string {
	var keys []int
	for k := range q.Items {
		keys = append(keys, k)
	}
	sort.Ints(keys)
	if len(keys) == 0 {
		return fmt.Sprintf("empty next=%d", q.NextIndex)
	}
	var b strings.Builder
	for _, k := range keys {
		fmt.Fprintf(&b, "%d,", k-keys[0])
	}
	fmt.Fprintf(&b, " next=%d", q.NextIndex-keys[0])
	return b.String()
}

func c18Sequential(r *ev.Run) {
	fail := func(kind string, n int, hist string, exp, act interface{}) {
		r.Violate(ev.Violation{Fingerprint: "C18 sequential " + kind, What: kind,
			Case: map[string]interface{}{"capacity": n, "history": hist}, Expected: exp, Actual: act, ReplayKind: "c18-history"})
	}
	build := func(n int, hist string) (*cq.CircularQueue, []int, bool) {
		q := cq.NewCircularQueue(n)
		var model []int
		next := 1
		// every snapshot handed out is kept and read again after each later
		// operation: a snapshot is a value, later additions must not show in it
		type kept struct {
			snap []handler.Message
			want string
			at   int
		}
		var held []kept
		for i, op := range hist {
			if op == 'A' {
				q.Add(msg(next))
				model = modelAdd(model, n, next)
				next++
			} else {
				snap := q.GetMessages()
				got := ids(snap)
				if fmt.Sprint(got) != fmt.Sprint(model) {
					fail("snapshot-differs-from-last-N", n, hist[:i+1], model, got)
					return q, model, false
				}
				held = append(held, kept{snap, fmt.Sprint(got), i})
			}
			for _, k := range held {
				if now := fmt.Sprint(ids(k.snap)); now != k.want {
					fail("snapshot-changed-after-it-was-returned", n, fmt.Sprintf("%s (snapshot of step %d read again)", hist[:i+1], k.at+1), k.want, now)
					return q, model, false
				}
			}
			if len(q.Items) > n {
				fail("holds-more-than-capacity", n, hist[:i+1], n, len(q.Items))
				return q, model, false
			}
		}
		return q, model, true
	}
	var states, trans int64
	for n := 1; n <= 8; n++ {
		seen := map[string]string{}
		frontier := []string{""}
		q0, _, _ := build(n, "")
		seen[canon(q0)] = ""
		for len(frontier) > 0 {
			h := frontier[0]
			frontier = frontier[1:]
			for _, op := range []string{"A", "G"} {
				nh := h + op
				// every transition is followed by a snapshot so the oracle sees each state
				q, model, ok := build(n, nh+"G")
				trans++
				if !ok {
					continue
				}
				// invariant behind the canonicalisation
				for k := range q.Items {
					if k >= q.NextIndex {
						fail("next-index-not-above-keys", n, nh, "NextIndex > every key", fmt.Sprint(k, q.NextIndex))
					}
				}
				_ = model
				c := canon(q)
				if _, dup := seen[c]; !dup {
					seen[c] = nh
					if len(nh) < 3*n+4 {
						frontier = append(frontier, nh)
					}
				}
			}
		}
		states += int64(len(seen))
		r.Outcome(fmt.Sprintf("capacity=%d canonical-states=%d", n, len(seen)))
		// long run: state reached far from the initial state behaves like the canonical one
		q := cq.NewCircularQueue(n)
		var model []int
		var heldSnap []handler.Message
		var heldWant string
		var heldAt int
		for id := 1; id <= 70000; id++ { // past every 16-bit counter
			q.Add(msg(id))
			model = modelAdd(model, n, id)
			snap := q.GetMessages()
			got := ids(snap)
			trans += 2
			// the snapshot taken 2n+1 additions ago (every phase of the ring comes round) is read again
			if heldSnap != nil && id == heldAt+2*n+1 {
				if now := fmt.Sprint(ids(heldSnap)); now != heldWant {
					fail("snapshot-changed-after-it-was-returned", n, fmt.Sprintf("snapshot after %d additions read again after %d", heldAt, id), heldWant, now)
					break
				}
				heldSnap = nil
			}
			if heldSnap == nil && id < 40*n+40 {
				heldSnap, heldWant, heldAt = snap, fmt.Sprint(got), id
			}
			if fmt.Sprint(got) != fmt.Sprint(model) {
				fail("snapshot-differs-from-last-N", n, fmt.Sprintf("%d additions", id), model, got)
				break
			}
			if len(q.Items) > n {
				fail("holds-more-than-capacity", n, fmt.Sprintf("%d additions", id), n, len(q.Items))
				break
			}
		}
	}
	// capacities beyond the explicit-state search (the proxy uses 20): long runs only
	for _, n := range []int{9, 10, 15, 16, 17, 20, 31, 32, 33, 64, 100, 255, 256, 257, 1000} {
		q := cq.NewCircularQueue(n)
		var model []int
		for id := 1; id <= 3*n+5; id++ {
			q.Add(msg(id))
			model = modelAdd(model, n, id)
			trans += 2
			if id%7 != 0 && id < 3*n {
				continue // a snapshot costs O(n log n): every seventh addition and the last few
			}
			got := ids(q.GetMessages())
			if fmt.Sprint(got) != fmt.Sprint(model) {
				fail("snapshot-differs-from-last-N", n, fmt.Sprintf("%d additions", id), len(model), len(got))
				break
			}
		}
	}
	// far from the initial state: the queue as K-n earlier additions leave it (the
	// exported index set, then filled through Add), for K round every power of two
	// an index type might stop at
	if strconv.IntSize == 64 {
		for n := 1; n <= 8; n++ {
			for _, k := range []int{1 << 7, 1 << 8, 1 << 15, 1 << 16, 1 << 31, 1 << 32} {
				q := cq.NewCircularQueue(n)
				base := k - n - 3
				q.NextIndex = base
				var model []int
				for id := 1; id <= 2*n+8; id++ {
					q.Add(msg(id))
					model = modelAdd(model, n, id)
					got := ids(q.GetMessages())
					trans += 2
					if fmt.Sprint(got) != fmt.Sprint(model) {
						fail("snapshot-differs-from-last-N", n, fmt.Sprintf("%d additions after %d earlier ones", id, base), model, got)
						break
					}
					if len(q.Items) > n {
						fail("holds-more-than-capacity", n, fmt.Sprintf("%d additions after %d earlier ones", id, base), n, len(q.Items))
						break
					}
				}
			}
		}
	}
	r.Count(trans, states, trans, trans)
	r.DistinctN += states
	r.Sample(map[string]interface{}{"part": "sequential", "capacity": 3, "history": "AAAAG", "snapshot": ids(func() []handler.Message {
		q := cq.NewCircularQueue(3)
		for i := 1; i <= 4; i++ {
			q.Add(msg(i))
		}
		return q.GetMessages()
	}())})
}

// ---- concurrent part ----

type c18Op struct {
	Kind      string // "add" or "get"
	Arg       int
	Res       []int
	Raw       []handler.Message // the snapshot itself, read again when the execution is over
	Call, Ret int
}

type c18Obs struct {
	ops   []*c18Op
	clock int
	done  int
}

func (o *c18Obs) call(kind string, arg int) *c18Op {
	o.clock++
	op := &c18Op{Kind: kind, Arg: arg, Call: o.clock}
	o.ops = append(o.ops, op)
	return op
}

func (o *c18Obs) ret(op *c18Op, res []int) {
	o.clock++
	op.Ret = o.clock
	op.Res = res
}

// linearizable searches for an order of the completed operations, consistent
// with real time, under which the slice model explains every result.
func linearizable(ops []*c18Op, n int) bool {
	used := make([]bool, len(ops))
	var rec func(state []int, placed int) bool
	rec = func(state []int, placed int) bool {
		if placed == len(ops) {
			return true
		}
		for i, op := range ops {
			if used[i] {
				continue
			}
			// op may go next only if no unplaced op returned before it was called
			ok := true
			for j, other := range ops {
				if !used[j] && j != i && other.Ret < op.Call {
					ok = false
					break
				}
			}
			if !ok {
				continue
			}
			if op.Kind == "add" {
				used[i] = true
				if rec(modelAdd(state, n, op.Arg), placed+1) {
					return true
				}
				used[i] = false
			} else if fmt.Sprint(op.Res) == fmt.Sprint(append([]int{}, state...)) {
				used[i] = true
				if rec(state, placed+1) {
					return true
				}
				used[i] = false
			}
		}
		return false
	}
	return rec(nil, 0)
}

func c18Scenarios(tier string) []*mcrt.Scenario {
	bound := 2
	if tier == "thorough" {
		bound = 3
	}
	type plan struct {
		name    string
		threads [][]string // per thread: sequence of "a<id>" / "g"
	}
	plans := []plan{
		{"adder(1,2)+adder(3)+reader(2)", [][]string{{"a1", "a2"}, {"a3"}, {"g", "g"}}},
		{"adder(1,2,3)+reader+reader", [][]string{{"a1", "a2", "a3"}, {"g"}, {"g"}}},
		{"adder(1)+adder(2)+reader", [][]string{{"a1"}, {"a2"}, {"g"}}},
	}
	var scs []*mcrt.Scenario
	for _, capN := range []int{1, 2} {
		for _, pl := range plans {
			capN, pl := capN, pl
			total := 0
			for _, t := range pl.threads {
				total += len(t)
			}
			scs = append(scs, &mcrt.Scenario{
				Name:  fmt.Sprintf("capacity=%d %s", capN, pl.name),
				Bound: bound, Horizon: 5000,
				Body: func(x *mcrt.X) {
					obs := &c18Obs{}
					x.Data = obs
					q := cq.NewCircularQueue(capN)
					fin := make(chan bool, len(pl.threads))
					for ti, seq := range pl.threads {
						seq := seq
						mcrt.Go(fmt.Sprintf("t%d", ti), func() {
							for _, o := range seq {
								if o[0] == 'a' {
									var id int
									fmt.Sscanf(o[1:], "%d", &id)
									op := obs.call("add", id)
									q.Add(msg(id))
									obs.ret(op, nil)
								} else {
									op := obs.call("get", 0)
									op.Raw = q.GetMessages()
									obs.ret(op, ids(op.Raw))
								}
							}
							mcrt.Send(fin, true)
						})
					}
					for range pl.threads {
						mcrt.Recv(fin)
					}
					obs.done = len(q.Items)
				},
				Check: func(x *mcrt.X) *mcrt.Failure {
					obs := x.Data.(*c18Obs)
					if len(x.Panics) > 0 {
						p := x.Panics[0]
						return &mcrt.Failure{Kind: "panic: " + firstLine(p.Value) + " @" + p.Site, Detail: p.Stack}
					}
					if x.End != mcrt.EndAllDone {
						return &mcrt.Failure{Kind: "deadlock-or-hang end=" + x.End, Detail: fmt.Sprint(x.Blocked)}
					}
					if len(obs.ops) != total {
						return &mcrt.Failure{Kind: "operations-missing"}
					}
					if obs.done > capN {
						return &mcrt.Failure{Kind: "holds-more-than-capacity", Detail: fmt.Sprint(obs.done)}
					}
					for _, o := range obs.ops {
						if o.Kind == "get" && fmt.Sprint(ids(o.Raw)) != fmt.Sprint(o.Res) {
							return &mcrt.Failure{Kind: "snapshot-changed-after-it-was-returned", Detail: fmt.Sprintf("returned %v, later reads %v", o.Res, ids(o.Raw))}
						}
					}
					if !linearizable(obs.ops, capN) {
						var h []string
						for _, o := range obs.ops {
							h = append(h, fmt.Sprintf("%s(%d)->%v [%d,%d]", o.Kind, o.Arg, o.Res, o.Call, o.Ret))
						}
						return &mcrt.Failure{Kind: "history-not-linearizable", Detail: strings.Join(h, " "), Data: h}
					}
					var snaps []string
					for _, o := range obs.ops {
						if o.Kind == "get" {
							snaps = append(snaps, fmt.Sprint(o.Res))
						}
					}
					harness.Outcome(strings.Join(snaps, ""))
					return nil
				},
			})
		}
	}
	return scs
}
