package mcprops

import (
	"bufio"
	"fmt"
	"sort"
	"time"

	"verif/mc/harness"
	"verif/mc/mcrt"
	"verif/props"
	"verif/ref"

	"github.com/goblimey/go-ntrip/apps/appcore"
	"github.com/goblimey/go-ntrip/jsonconfig"
	"github.com/goblimey/go-ntrip/rtcm/handler"
)

func init() {
	Props["C09"] = &harness.Prop{
		ID:             "C09",
		Rule:           "AppCore.HandleMessagesUntilEOF on the main thread with instrumented appcore, file_handler, rtcm/handler and rtcm/pushback; 11 streams (empty, x, D3, junk, frame, junk+frame, frame+junk+frame, frame+truncated, bad-CRC frame+frame, a 1005 and a 1077 frame) x 6 consumer lists ([unbuffered], [buffer 1], [unbuffered,nil,unbuffered], [buffer 2,unbuffered], [nil,nil], [buffer 1,buffer 1,unbuffered]) x every chunking of the source (each underlying Read hands over 1 byte, 2 bytes or everything) ; for three streams also a SECOND call of the same AppCore on a further input (as after a reconnect); x all interleavings of reader, framing, fan-out and consumer threads (state-key pruning; bounded by preemptions only where the budget cuts the full pass). Oracle: every consumer receives exactly what sequential framing by the implementation delivers; the call returns 0; every helper goroutine has finished; no panic (double close). Non-trivial = distinct schedule trace",
		Assumptions:    []string{"scheduling points are channel operations, goroutine creation and the source's Read; threads share memory only through channels (message values are copied by the channel send, their RawData slices are only read), so state-key pruning is sound", "the clause 'no data race' is outside what a cooperative scheduler can observe; it is touched only by the auxiliary free-running -race pass"},
		Scenarios:      c09Scenarios,
		QuickBudget:    60 * time.Second,
		ThoroughBudget: 10 * time.Minute,
	}
}

type c09Obs struct {
	logs     []*consumerLog
	ret      int
	returned bool
	src      *chunkSrc
	src2     *chunkSrc
	fsrc     *faultSrc
}

func c09Scenarios(tier string) []*mcrt.Scenario {
	type cl struct {
		name string
		caps []int // -1 = nil entry
	}
	lists := []cl{{"[unbuf]", []int{0}}, {"[buf1]", []int{1}}, {"[unbuf,nil,unbuf]", []int{0, -1, 0}}, {"[buf2,unbuf]", []int{2, 0}}, {"[nil,nil]", []int{-1, -1}}, {"[buf1,buf1,unbuf]", []int{1, 1, 0}}}
	streams := pipelineStreams()
	var names []string
	for n := range streams {
		names = append(names, n)
	}
	sort.Strings(names)
	bound := 2
	if tier == "thorough" {
		bound = 3
	}
	var scs []*mcrt.Scenario
	for _, sn := range names {
		for _, l := range lists {
			for _, second := range []string{"", "frame"} {
				stream, l, second := streams[sn], l, second
				if second != "" && !(sn == "frame" || sn == "junk+frame" || sn == "x" || (tier == "thorough" && sn == "frame+truncated")) {
					continue
				}
				stream2 := streams[second]
				if tier != "thorough" && len(l.caps) == 3 && l.caps[1] >= 0 && len(stream) > 9 {
					continue // three live consumers on multi-message streams: thorough tier only
				}
				if second != "" && len(l.caps) == 3 && l.caps[1] >= 0 && tier != "thorough" {
					continue
				}
				// quick: the unbounded pass only where it finishes in seconds
				full := tier == "thorough" || len(stream) <= 15
				scs = append(scs, &mcrt.Scenario{
					Name:  fmt.Sprintf("stream=%s%s consumers=%s", sn, map[bool]string{true: " then-second-call=" + second, false: ""}[second != ""], l.name),
					Bound: bound, Horizon: 20000, Prune: true, Full: full,
					Body: func(x *mcrt.X) {
						obs := &c09Obs{src: &chunkSrc{data: stream}}
						x.Data = obs
						var chans []chan handler.Message
						for i, c := range l.caps {
							if c < 0 {
								chans = append(chans, nil)
								continue
							}
							ch := make(chan handler.Message, c)
							chans = append(chans, ch)
							log := &consumerLog{}
							obs.logs = append(obs.logs, log)
							consume(fmt.Sprintf("consumer%d", i), ch, log)
						}
						// the harness keeps its own list: the consumer list handed to AppCore
						// belongs to AppCore from here on
						own := append([]chan handler.Message{}, chans...)
						core := appcore.New(&jsonconfig.Config{}, chans)
						obs.ret = core.HandleMessagesUntilEOF(T0, bufio.NewReader(obs.src))
						if second != "" {
							// the same AppCore handles the next input, as AppCore.HandleMessages
							// does after end of file or a reconnect
							obs.src2 = &chunkSrc{data: stream2}
							obs.ret += core.HandleMessagesUntilEOF(T0, bufio.NewReader(obs.src2))
						}
						obs.returned = true
						// as the applications do after the call returns
						for _, ch := range own {
							if ch != nil {
								mcrt.Close(ch)
							}
						}
					},
					Check: func(x *mcrt.X) *mcrt.Failure {
						obs := x.Data.(*c09Obs)
						if len(x.Panics) > 0 {
							p := x.Panics[0]
							return &mcrt.Failure{Kind: "panic in " + p.Thread + ": " + firstLine(p.Value) + " @" + p.Site, Detail: p.Stack}
						}
						if !obs.returned {
							return &mcrt.Failure{Kind: "call-did-not-return end=" + x.End, Detail: fmt.Sprint(x.Blocked)}
						}
						if x.End != mcrt.EndAllDone {
							return &mcrt.Failure{Kind: "helper-goroutines-left-blocked", Detail: fmt.Sprint(x.Blocked)}
						}
						if obs.ret != 0 {
							return &mcrt.Failure{Kind: "unexpected-return-value", Detail: fmt.Sprint(obs.ret)}
						}
						for i, log := range obs.logs {
							msgs := log.msgs
							if second != "" {
								// first the framing of the first input, then that of the second
								want1, _ := props.SequentialFraming(stream)
								if len(msgs) < len(want1) {
									return &mcrt.Failure{Kind: "consumer-sequence-differs-from-sequential-framing", Detail: fmt.Sprintf("consumer %d got %d messages over two calls", i, len(msgs))}
								}
								if ok, d := sameAsSequential(msgs[len(want1):], stream2); !ok {
									return &mcrt.Failure{Kind: "consumer-sequence-differs-from-sequential-framing on a second call of the same AppCore", Detail: fmt.Sprintf("consumer %d: %s", i, d)}
								}
								msgs = msgs[:len(want1)]
							}
							if ok, d := sameAsSequential(msgs, stream); !ok {
								return &mcrt.Failure{Kind: "consumer-sequence-differs-from-sequential-framing", Detail: fmt.Sprintf("consumer %d: %s", i, d)}
							}
						}
						n := 0
						if len(obs.logs) > 0 {
							n = len(obs.logs[0].msgs)
						}
						harness.Outcome(fmt.Sprintf("messages=%d reads=%d", n, min(obs.src.reads, 9)))
						return nil
					},
				})
			}
		}
	}
	// consumers that lag as far as the pipeline lets them, behind 24 messages
	var tiny []byte
	for i := 0; i < 24; i++ {
		tiny = append(tiny, ref.TypedFrame(1000+i, 1+i%3, func(k int) byte { return byte(i) })...)
	}
	for _, caps := range [][]int{{0, -1, 0}, {4, 0}} {
		caps := caps
		scs = append(scs, &mcrt.Scenario{
			Name: fmt.Sprintf("lagging-consumers 24-small-frames caps=%v", caps), Bound: 1, Horizon: 400000, Prune: true,
			Body: func(x *mcrt.X) {
				obs := &c09Obs{src: &chunkSrc{data: tiny}}
				x.Data = obs
				var chans []chan handler.Message
				for i, c := range caps {
					if c < 0 {
						chans = append(chans, nil)
						continue
					}
					ch := make(chan handler.Message, c)
					chans = append(chans, ch)
					log := &consumerLog{}
					obs.logs = append(obs.logs, log)
					name := fmt.Sprintf("consumer%d", i)
					mcrt.GoLow(name, func() {
						for {
							m, ok := mcrt.Recv2(ch)
							if !ok {
								log.closed++
								return
							}
							log.msgs = append(log.msgs, m)
						}
					})
				}
				own := append([]chan handler.Message{}, chans...)
				core := appcore.New(&jsonconfig.Config{}, chans)
				obs.ret = core.HandleMessagesUntilEOF(T0, bufio.NewReader(obs.src))
				obs.returned = true
				for _, ch := range own {
					if ch != nil {
						mcrt.Close(ch)
					}
				}
			},
			Check: func(x *mcrt.X) *mcrt.Failure {
				obs := x.Data.(*c09Obs)
				if len(x.Panics) > 0 {
					p := x.Panics[0]
					return &mcrt.Failure{Kind: "panic in " + p.Thread + ": " + firstLine(p.Value) + " @" + p.Site, Detail: p.Stack}
				}
				if !obs.returned || x.End != mcrt.EndAllDone {
					return &mcrt.Failure{Kind: "call-did-not-return end=" + x.End, Detail: fmt.Sprint(x.Blocked)}
				}
				for i, log := range obs.logs {
					if ok, d := sameAsSequential(log.msgs, tiny); !ok {
						return &mcrt.Failure{Kind: "consumer-sequence-differs-from-sequential-framing", Detail: fmt.Sprintf("lagging consumer %d: %.300s", i, d)}
					}
				}
				harness.Outcome("lagging consumers ok")
				return nil
			},
		})
	}
	// the source pauses (EOF) and resumes, with a non-zero EOF tolerance in the
	// configuration and consumers that may take 200 ms (virtual) per message:
	// "however the bytes are chunked in time"
	f7 := ref.Frame([]byte{0x41})
	paused := append(append(append([]byte{}, f7...), ref.TypedFrame(1005, 3, nil)...), ref.TypedFrame(1230, 2, nil)...)
	// (time scales three orders of magnitude apart: nothing in the pipeline may
	// depend on how long a pause lasts as long as it is within the tolerance)
	type paceT struct {
		tolMs, waitMs uint
		pause         time.Duration
	}
	for _, pace := range []paceT{{50, 10, 200 * time.Millisecond}, {60000, 3000, 5 * time.Second}, {50, 0, 200 * time.Millisecond}} { // the last: a tolerance without a retry pause
		for _, capN := range []int{0, 1} {
			capN, pace := capN, pace
			tol := time.Duration(pace.tolMs) * time.Millisecond
			scs = append(scs, &mcrt.Scenario{
				Name: fmt.Sprintf("pausing-source tolerance=%v retry-pause=%dms consumer-cap=%d", tol, pace.waitMs, capN), Bound: 2, Horizon: 100000, Prune: true,
				Body: func(x *mcrt.X) {
					obs := &c09Obs{}
					x.Data = obs
					fs := &faultSrc{data: paused}
					obs.fsrc = fs
					ch := make(chan handler.Message, capN)
					log := &consumerLog{}
					obs.logs = append(obs.logs, log)
					consumeSlowly("consumer0", ch, log, pace.pause)
					core := appcore.New(&jsonconfig.Config{TimeoutOnEOFMilliSeconds: pace.tolMs, WaitTimeOnEOFMilliseconds: pace.waitMs}, []chan handler.Message{ch})
					obs.ret = core.HandleMessagesUntilEOF(T0, bufio.NewReader(fs))
					obs.returned = true
					mcrt.Close(ch)
				},
				Check: func(x *mcrt.X) *mcrt.Failure {
					obs := x.Data.(*c09Obs)
					if len(x.Panics) > 0 {
						p := x.Panics[0]
						return &mcrt.Failure{Kind: "panic in " + p.Thread + ": " + firstLine(p.Value) + " @" + p.Site, Detail: p.Stack}
					}
					if !obs.returned || x.End != mcrt.EndAllDone {
						return &mcrt.Failure{Kind: "call-did-not-return end=" + x.End, Detail: fmt.Sprint(x.Blocked)}
					}
					fs := obs.fsrc
					if fs.supplied < len(paused) {
						// the reader stopped before the source had handed everything over:
						// allowed after another error, or when - on the handler's own clock -
						// the silence had lasted longer than the tolerance
						if fs.lastErr == errOther {
							return nil
						}
						if silence := fs.lastErrAt.Sub(fs.firstEOF); silence <= tol {
							return &mcrt.Failure{Kind: "reader-gave-up-within-the-EOF-tolerance", Detail: fmt.Sprintf("silence %v, tolerance %v, %d of %d bytes read; faults=%v", silence, tol, fs.supplied, len(paused), fs.faults)}
						}
					}
					if ok, d := sameAsSequential(obs.logs[0].msgs, paused[:fs.supplied]); !ok {
						return &mcrt.Failure{Kind: "consumer-sequence-differs-from-sequential-framing after pauses of the source", Detail: fmt.Sprintf("%.300s faults=%v", d, fs.faults)}
					}
					harness.Outcome(fmt.Sprintf("pauses=%d", len(fs.faults)))
					return nil
				},
			})
		}
	}
	// inputs around the 4096-byte buffer of bufio.Reader (default schedule; the
	// source hands over everything that fits per Read)
	for _, n := range []int{4095, 4096, 4097, 8193, 70001} { // 70001: more than 2^16 bytes, 2500 messages
		var stream []byte
		fr := ref.TypedFrame(1077, 22, nil)
		for len(stream)+len(fr) <= n {
			stream = append(stream, fr...)
		}
		for len(stream) < n {
			stream = append(stream, '$')
		}
		scs = append(scs, &mcrt.Scenario{
			Name: fmt.Sprintf("stream=%dB consumers=[buf1,nil,unbuf] default-schedule", n), DefaultOnly: true, Horizon: 4000000,
			Body: func(x *mcrt.X) {
				obs := &c09Obs{src: &chunkSrc{data: stream}}
				x.Data = obs
				chans := []chan handler.Message{make(chan handler.Message, 1), nil, make(chan handler.Message)}
				own := append([]chan handler.Message{}, chans...)
				for i, ch := range chans {
					if ch != nil {
						log := &consumerLog{}
						obs.logs = append(obs.logs, log)
						consume(fmt.Sprintf("consumer%d", i), ch, log)
					}
				}
				core := appcore.New(&jsonconfig.Config{}, chans)
				obs.ret = core.HandleMessagesUntilEOF(T0, bufio.NewReader(obs.src))
				obs.returned = true
				for _, ch := range own {
					if ch != nil {
						mcrt.Close(ch)
					}
				}
			},
			Check: func(x *mcrt.X) *mcrt.Failure {
				obs := x.Data.(*c09Obs)
				if len(x.Panics) > 0 {
					p := x.Panics[0]
					return &mcrt.Failure{Kind: "panic in " + p.Thread + ": " + firstLine(p.Value) + " @" + p.Site, Detail: p.Stack}
				}
				if !obs.returned || x.End != mcrt.EndAllDone {
					return &mcrt.Failure{Kind: "call-did-not-return end=" + x.End, Detail: fmt.Sprint(x.Blocked)}
				}
				for i, log := range obs.logs {
					if ok, d := sameAsSequential(log.msgs, stream); !ok {
						if len(d) > 300 {
							d = d[:300]
						}
						return &mcrt.Failure{Kind: "consumer-sequence-differs-from-sequential-framing", Detail: fmt.Sprintf("%d-byte stream, consumer %d: %s", len(stream), i, d)}
					}
				}
				harness.Outcome("large stream delivered")
				return nil
			},
		})
	}
	return scs
}
