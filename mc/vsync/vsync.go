// Package vsync mirrors the parts of package sync that go-ntrip uses, routed
// through the controlled scheduler when an exploration is active and through
// the real primitives otherwise.  Instrumented files import it under the name
// "sync", so embedded *sync.Mutex / *sync.RWMutex fields keep their methods.
package vsync

import (
	"sync"

	"verif/mc/mcrt"
)

// Mutex is sync.Mutex.
type Mutex struct{ real sync.Mutex }

func (m *Mutex) Lock() {
	if !mcrt.MuLock(m) {
		m.real.Lock()
	}
}

func (m *Mutex) TryLock() bool {
	if h, got := mcrt.MuTryLock(m, false); h {
		return got
	}
	return m.real.TryLock()
}

func (m *Mutex) Unlock() {
	if !mcrt.MuUnlock(m) {
		m.real.Unlock()
	}
}

// RWMutex is sync.RWMutex, including writer preference: a reader arriving
// after a writer has called Lock waits for that writer.
type RWMutex struct{ real sync.RWMutex }

func (m *RWMutex) Lock() {
	if !mcrt.RWLock(m) {
		m.real.Lock()
	}
}

func (m *RWMutex) TryLock() bool {
	if h, got := mcrt.MuTryLock(m, false); h {
		return got
	}
	return m.real.TryLock()
}

func (m *RWMutex) TryRLock() bool {
	if h, got := mcrt.MuTryLock(m, true); h {
		return got
	}
	return m.real.TryRLock()
}

func (m *RWMutex) Unlock() {
	if !mcrt.MuUnlock(m) {
		m.real.Unlock()
	}
}

func (m *RWMutex) RLock() {
	if !mcrt.MuRLock(m) {
		m.real.RLock()
	}
}

func (m *RWMutex) RUnlock() {
	if !mcrt.MuRUnlock(m) {
		m.real.RUnlock()
	}
}

// WaitGroup is sync.WaitGroup.
type WaitGroup struct{ real sync.WaitGroup }

func (w *WaitGroup) Add(n int) {
	if !mcrt.WGAdd(w, n) {
		w.real.Add(n)
	}
}

func (w *WaitGroup) Done() { w.Add(-1) }

func (w *WaitGroup) Wait() {
	if !mcrt.WGWait(w) {
		w.real.Wait()
	}
}

// Once is sync.Once (single-threaded under the scheduler, so a flag suffices there).
type Once struct {
	real sync.Once
	done bool
}

func (o *Once) Do(f func()) {
	if mcrt.Active() {
		if !o.done {
			o.done = true
			f()
		}
		return
	}
	o.real.Do(f)
}

// Locker is sync.Locker.
type Locker = sync.Locker

// Map and Pool never block, so the real ones are used as they are.
type Map = sync.Map
type Pool = sync.Pool

// Cond is sync.Cond over a vsync Locker.
type Cond struct {
	L    Locker
	real *sync.Cond
}

// NewCond is sync.NewCond.
func NewCond(l Locker) *Cond { return &Cond{L: l, real: sync.NewCond(l)} }

func (c *Cond) Wait() {
	if !mcrt.Active() {
		c.real.Wait()
		return
	}
	t := mcrt.CondEnqueue(c)
	c.L.Unlock()
	mcrt.CondWait(c, t)
	c.L.Lock()
}

func (c *Cond) Signal() {
	if !mcrt.CondWake(c, false) {
		c.real.Signal()
	}
}

func (c *Cond) Broadcast() {
	if !mcrt.CondWake(c, true) {
		c.real.Broadcast()
	}
}
