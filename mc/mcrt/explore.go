package mcrt

import (
	"fmt"
	"os"
	"time"
)

// Scenario is one closed system to explore.
type Scenario struct {
	Name string
	// Body runs as the main thread of every execution.  It receives a fresh
	// X whose Data field it may fill with observations.
	Body func(x *X)
	// Check is evaluated after every execution; a non-empty kind is a violation.
	Check func(x *X) *Failure
	// Bound is the largest number of deviations (preemptions plus non-default
	// environment answers) to explore; the explorer completes 0,1,..,Bound in turn.
	Bound int
	// Horizon is the per-execution step limit.
	Horizon int
	// MaxExecutions caps the work per bound (0 = no cap).
	MaxExecutions int64
	// Deadline ends the exploration when passed (zero = none).
	Deadline time.Time
	// Prune enables state-key pruning: an execution is cut when it reaches a
	// global state (thread histories, channel contents, lock histories, clock)
	// that was already reached with no more deviations spent.  Sound only when
	// threads interact through hooked operations alone.
	Prune bool
	// DefaultOnly runs just the default schedule (used for the input
	// dimension of application properties, where the schedule dimension is
	// covered by other scenarios).
	DefaultOnly bool
	// Full adds a final pass with no deviation bound at all (use with Prune).
	Full bool
}

// Failure is a property violation found in one execution.
type Failure struct {
	Kind    string // fingerprint-level classification
	Detail  string
	Choices []int
	Trace   []string
	Data    interface{}
}

// Stats is what an exploration covered.
type Stats struct {
	Executions     int64
	Points         int64 // scheduling / environment choice points visited
	Steps          int64 // operations committed (transitions)
	MaxThreads     int
	BoundCompleted int // -1 if not even bound 0 finished
	Capped         string
	Outcomes       map[string]int64
	TraceClasses   map[uint64]struct{}
	Ends           map[string]int64
	// Unbounded is set when the last completed bound pruned nothing: every
	// interleaving / environment answer of the scenario was explored.
	Unbounded bool
	// Pruned counts executions cut by state-key pruning; States is the number
	// of distinct state keys seen at choice points.
	Pruned int64
	States int64
}

// Explorer runs scenarios.
type Explorer struct {
	sc    *Scenario
	st    *Stats
	fail  *Failure
	bound int
	execs int64
	// skipped counts alternatives not taken because they exceed the bound;
	// zero means the bounded search was in fact exhaustive.
	skipped int64
	visited map[uint64]int
	prunedN int64
}

func (e *Explorer) runOnce(prefix []int, keepTrace bool) *X {
	h := e.sc.Horizon
	if h == 0 {
		h = 20000
	}
	s := newSched(prefix, h, keepTrace)
	if !keepTrace {
		s.visited = e.visited
		s.full = e.bound >= 1<<30
	}
	x := s.run(func() { e.sc.Body(s.x) })
	if s.diverged != "" {
		panic(MachineryFailure(s.diverged))
	}
	return x
}

func cost(p point, alt int) int {
	if p.costs != nil {
		return p.costs[alt]
	}
	if alt == 0 || p.free {
		return 0
	}
	if p.env {
		return 1
	}
	if p.runnable {
		return 1
	}
	return 0
}

func (e *Explorer) explore(prefix []int, used int) bool {
	if e.fail != nil {
		return false
	}
	if e.sc.MaxExecutions > 0 && e.execs >= e.sc.MaxExecutions {
		e.st.Capped = fmt.Sprintf("execution cap %d reached at bound %d", e.sc.MaxExecutions, e.bound)
		return false
	}
	if !e.sc.Deadline.IsZero() && e.execs%64 == 0 && time.Now().After(e.sc.Deadline) {
		e.st.Capped = fmt.Sprintf("deadline reached at bound %d after %d executions", e.bound, e.execs)
		return false
	}
	x := e.runOnce(prefix, false)
	e.execs++
	e.st.Points += int64(len(x.points))
	e.st.Steps += int64(x.Steps)
	if x.Threads > e.st.MaxThreads {
		e.st.MaxThreads = x.Threads
	}
	e.st.TraceClasses[x.traceSum] = struct{}{}
	if x.PrunedAt >= 0 {
		e.prunedN++
		e.st.Pruned++
	} else {
		e.st.Ends[x.End]++
	}
	if x.PrunedAt >= 0 {
		// continuation already covered; branch only above the cut
	} else if f := e.sc.Check(x); f != nil {
		// confirm: the same choices must fail the same way 5 times.  If they do
		// not, the code under test has a source of nondeterminism the scheduler
		// does not own (typically map iteration order); the schedule is then
		// re-run 20 times and the violation stands if it recurs at all - every
		// one of these runs is a real execution of the real code - while a
		// failure that never recurs is a machinery failure, not a verdict.
		same := true
		for i := 0; i < 5 && same; i++ {
			y := e.runOnceTolerant(x.Choices)
			g := e.sc.Check(y)
			if g == nil || g.Kind != f.Kind || y.traceSum != x.traceSum {
				same = false
			} else {
				f.Trace = y.Trace
			}
		}
		if !same {
			again := 0
			for i := 0; i < 20; i++ {
				y := e.runOnceTolerant(x.Choices)
				if g := e.sc.Check(y); g != nil {
					again++
					if f.Trace == nil {
						f.Trace = y.Trace
					}
				}
			}
			if again == 0 {
				panic(MachineryFailure(fmt.Sprintf("violation %q did not reproduce in 20 re-runs of the same schedule (nondeterminism not captured)", f.Kind)))
			}
			f.Detail += fmt.Sprintf(" [not deterministic under a fixed schedule: %d of 20 re-runs of the same choices violated the property again - the code has a source of nondeterminism outside the scheduler, e.g. map iteration order]", again)
		}
		f.Choices = append([]int{}, x.Choices...)
		e.fail = f
		return false
	}
	c := 0 // deviations spent by this execution before point i
	_ = used
	pts := x.points
	choices := x.Choices
	for i := 0; i < len(pts); i++ {
		if x.PrunedAt >= 0 && i >= x.PrunedAt {
			break
		}
		if i >= len(prefix) {
			for alt := 1; alt < pts[i].n; alt++ {
				nc := c + cost(pts[i], alt)
				if nc > e.bound {
					e.skipped++
					continue
				}
				child := append(append(make([]int, 0, i+1), choices[:i]...), alt)
				if !e.explore(child, nc) && (e.fail != nil || e.st.Capped != "") {
					return false
				}
			}
		}
		c += cost(pts[i], pts[i].chosen)
	}
	return true
}

// Explore enumerates every execution of the scenario with at most Bound
// deviations, iterating the bound upwards.  It returns the first (fewest
// deviations) violation, if any.
func Explore(sc *Scenario) (*Stats, *Failure) {
	st := &Stats{Outcomes: map[string]int64{}, TraceClasses: map[uint64]struct{}{}, Ends: map[string]int64{}, BoundCompleted: -1}
	// determinism self-check: the default schedule twice
	e0 := &Explorer{sc: sc, st: st}
	a := e0.runOnce(nil, false)
	b := e0.runOnce(nil, false)
	if a.traceSum != b.traceSum || len(a.points) != len(b.points) {
		panic(MachineryFailure("default schedule is not deterministic: two runs differ"))
	}
	// Pass order: the cheapest bounds first (fewest-deviation counterexamples),
	// then — with Full — the unbounded pass, whose state keys merge best; only
	// if that pass is cut by the deadline do the larger bounds follow.
	if sc.DefaultOnly {
		e := &Explorer{sc: sc, st: st, bound: 0}
		x := e.runOnce(nil, false)
		st.Executions, st.Steps, st.Points, st.MaxThreads = 1, int64(x.Steps), int64(len(x.points)), x.Threads
		st.TraceClasses[x.traceSum] = struct{}{}
		st.Ends[x.End]++
		st.BoundCompleted = 0
		if f := sc.Check(x); f != nil {
			y := e.runOnce(x.Choices, true)
			f.Trace, f.Choices = y.Trace, x.Choices
			return st, f
		}
		return st, nil
	}
	bounds := []int{}
	for b := 0; b <= sc.Bound && (b <= 1 || !sc.Full); b++ {
		bounds = append(bounds, b)
	}
	if sc.Full {
		bounds = append(bounds, 1<<30)
		for b := 2; b <= sc.Bound; b++ {
			bounds = append(bounds, b)
		}
	}
	overall := sc.Deadline
	prev := -1
	fullCut := ""
	for _, bound := range bounds {
		cur := &Stats{Outcomes: st.Outcomes, TraceClasses: map[uint64]struct{}{}, Ends: map[string]int64{}, BoundCompleted: st.BoundCompleted}
		e := &Explorer{sc: sc, st: cur, bound: bound}
		if bound >= 1<<30 && !overall.IsZero() {
			// the unbounded pass may use 60% of what is left
			scCopy := *sc
			scCopy.Deadline = time.Now().Add(time.Until(overall) * 6 / 10)
			e.sc = &scCopy
		}
		if sc.Prune {
			e.visited = map[uint64]int{}
		}
		e.explore(nil, 0)
		cur.States = int64(len(e.visited))
		if os.Getenv("MC_DEBUG") != "" {
			fmt.Fprintf(os.Stderr, "pass bound=%d execs=%d pruned=%d states=%d skipped=%d capped=%q\n", bound, e.execs, e.prunedN, len(e.visited), e.skipped, cur.Capped)
		}
		cur.MaxThreads = max(cur.MaxThreads, st.MaxThreads)
		if e.fail != nil {
			cur.BoundCompleted = prev
			return cur, e.fail
		}
		if cur.Capped != "" && bound >= 1<<30 && sc.Bound >= 2 && time.Now().Before(overall) {
			// unbounded pass cut short: remember that, go on with the bounded passes
			st.Capped = cur.Capped
			st.Executions += e.execs
			fullCut = cur.Capped
			continue
		}
		if cur.Capped != "" {
			cur.BoundCompleted = prev
			// keep the larger of the two coverage figures
			if cur.Executions < st.Executions {
				st.Capped = cur.Capped
				return st, nil
			}
			cur.Executions = e.execs
			return cur, nil
		}
		cur.Executions = e.execs
		cur.BoundCompleted = bound
		prev = bound
		st = cur
		if e.skipped == 0 {
			st.Unbounded = true
			break
		}
	}
	if fullCut != "" && !st.Unbounded && st.Capped == "" {
		st.Capped = fullCut
	}
	return st, nil
}

// runOnceTolerant replays choices with tracing and tolerates divergence (an
// out-of-range choice falls back to the default alternative).
func (e *Explorer) runOnceTolerant(choices []int) *X {
	h := e.sc.Horizon
	if h == 0 {
		h = 20000
	}
	s := newSched(choices, h, true)
	return s.run(func() { e.sc.Body(s.x) })
}

// ReplayOnce re-executes one recorded schedule (no exploration) with tracing.
func ReplayOnce(sc *Scenario, choices []int) (*X, *Failure) {
	e := &Explorer{sc: sc, st: &Stats{}}
	x := e.runOnce(choices, true)
	return x, sc.Check(x)
}
