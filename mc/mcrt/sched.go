// Package mcrt is the controlled scheduler ("engine A" of DESIGN.md): a
// cooperative runtime in which every goroutine, channel operation, mutex,
// clock read and environment answer of the code under test is owned by one
// scheduler, so that executions can be enumerated and replayed exactly.
//
// Code under test is instrumented (cmd/instr, go build -overlay) to call the
// hooks in hooks.go.  When no exploration is active every hook falls through
// to the real Go operation.
package mcrt

import (
	"fmt"
	"os"
	"runtime/debug"
	"sort"
	"strings"
	"time"
)

type opKind int

const (
	opStart opKind = iota
	opSend
	opRecv
	opClose
	opLock
	opRLock
	opWait
	opSleep
	opYield
	opResume
	opSelect
	opCond
)

var opNames = [...]string{"start", "send", "recv", "close", "lock", "rlock", "wgwait", "sleep", "yield", "resume", "select", "condwait"}

type op struct {
	kind   opKind
	ch     *chanState
	val    interface{}
	vh     uint64 // hash of val, computed once
	mu     *muState
	wg     *wgState
	wake   time.Time
	label  string
	rw     bool // the lock operation is on an RWMutex
	cond   *condState
	ticket int
	// select
	cases      []selCase
	hasDefault bool
}

type selCase struct {
	send bool
	ch   *chanState
	val  interface{}
	vh   uint64
}

type thread struct {
	id       int
	name     string
	wake     chan struct{}
	pend     *op
	done     bool
	aborting bool
	result   interface{}
	resH     uint64
	ok       bool
	selIdx   int
	low      bool   // scheduled only when no normal thread can run, in the default order
	inject   string // runtime panic to raise inside the thread when it resumes
	parkSeq  int
	spin     int // loop iterations since the last scheduling point (see Spin)
	hist     uint64
	steps    int
}

type chanState struct {
	id     int
	cap    int
	buf    []interface{}
	bufH   []uint64 // hashes of buf, in step
	closed bool
	// timer channels (mcrt.After): the single value may be delivered at any
	// step; the virtual clock then jumps to the wake time
	timer  bool
	fired  bool
	wake   time.Time
	ticker bool
	period time.Duration
	// pin keeps the real channel alive: the side table is keyed by its address,
	// which the garbage collector must not hand to another channel meanwhile
	pin interface{}
}

type muState struct {
	id      int
	writer  bool
	readers int
	hist    uint64 // acquisition order (data guarded by the lock is a function of it)
}

type condState struct {
	next    int
	waiting []int
	woken   []int
}

type wgState struct {
	id int
	n  int
}

// PanicInfo describes a panic that escaped a thread of the system under test.
type PanicInfo struct {
	Thread string
	Value  string
	Site   string // top frame inside go-ntrip
	Stack  string
}

// BlockedInfo describes a thread that is blocked when the execution ends.
type BlockedInfo struct {
	Thread string
	Op     string
}

// End states of one execution.
const (
	EndAllDone   = "all-threads-finished"
	EndQuiescent = "quiescent-with-blocked-threads"
	EndHorizon   = "step-horizon"
	EndPanic     = "panic"
	EndStopped   = "stopped-by-harness"
)

// X is the record of one execution, handed to the scenario's Check.
type X struct {
	End      string
	Blocked  []BlockedInfo
	Panics   []PanicInfo
	Steps    int
	Threads  int
	Trace    []string // compact op log (thread:op:object)
	Data     interface{}
	Choices  []int
	points   []point
	traceSum uint64
	// PrunedAt is the index of the choice point at which the execution was cut
	// because its state had already been explored (-1: ran to the end).
	PrunedAt int
}

type point struct {
	n      int
	chosen int
	env    bool
	free   bool
	// runnable: for sched points, whether alternative 0 was the previously
	// running thread still enabled (then alternatives >0 are preemptions)
	runnable bool
	label    string
	// costs, when set, gives the deviation cost of every alternative explicitly
	costs []int
}

// Sched is one execution's scheduler.
type Sched struct {
	threads   []*thread
	running   *thread
	last      *thread
	parked    chan struct{}
	chans     map[interface{}]*chanState
	mus       map[interface{}]*muState
	wgs       map[interface{}]*wgState
	conds     map[interface{}]*condState
	now       time.Time
	prefix    []int
	x         *X
	parkCount int
	horizon   int
	stop      bool
	keepTrace bool
	diverged  string
	// state-key pruning (nil = off): key -> fewest deviations with which the state was reached
	visited map[uint64]int
	used    int // deviations spent so far in this execution
	pruned  bool
	// full: no deviation bound is in force, so neither the cost spent nor the
	// identity of the last-run thread is part of the state
	full bool
}

// cur is the active scheduler; nil means pass-through mode.
var cur *Sched

// Active reports whether an exploration is running.
func Active() bool { return cur != nil }

type abortSentinel struct{}

// Epoch is the virtual clock's starting instant.
var Epoch = time.Date(2023, 5, 10, 12, 0, 0, 0, time.UTC)

func newSched(prefix []int, horizon int, keepTrace bool) *Sched {
	return &Sched{parked: make(chan struct{}), chans: map[interface{}]*chanState{},
		mus: map[interface{}]*muState{}, wgs: map[interface{}]*wgState{}, now: Epoch,
		prefix: prefix, x: &X{PrunedAt: -1}, horizon: horizon, keepTrace: keepTrace}
}

// take consumes the next choice among n alternatives.
func (s *Sched) takeCosts(costs []int, env bool, label string) int {
	return s.take(len(costs), env, false, false, label, costs...)
}

func (s *Sched) take(n int, env, free, runnable bool, label string, costs ...int) int {
	i := len(s.x.points)
	c := 0
	if i < len(s.prefix) {
		c = s.prefix[i]
		if c >= n {
			s.diverged = fmt.Sprintf("replay divergence at point %d (%s): choice %d of %d alternatives", i, label, c, n)
			c = 0
		}
	}
	pt := point{n: n, chosen: c, env: env, free: free, runnable: runnable, label: label}
	if len(costs) == n {
		pt.costs = costs
	}
	if s.visited != nil && i >= len(s.prefix) && !s.pruned {
		k := s.stateKey(env)
		if best, ok := s.visited[k]; ok && best <= s.used {
			s.pruned = true
			s.stop = true
			s.x.PrunedAt = i
		} else {
			s.visited[k] = s.used
		}
	}
	if !s.full {
		s.used += cost(pt, c)
	}
	s.x.points = append(s.x.points, pt)
	s.x.Choices = append(s.x.Choices, c)
	if env && s.running != nil {
		s.running.hist = mix(s.running.hist, 0xE0, uint64(c), hashString(label))
	}
	return c
}

func mix(h uint64, vs ...uint64) uint64 {
	for _, v := range vs {
		h = (h ^ v) * 1099511628211
		h ^= h >> 29
	}
	return h
}

// HashVal hashes a value carried by a channel (schedule-independent for the
// value types go-ntrip sends: bytes, byte slices, message structs).
func HashVal(v interface{}) uint64 {
	switch x := v.(type) {
	case nil:
		return 1
	case byte:
		return uint64(x) + 2
	case int:
		return uint64(x) + 3
	case bool:
		if x {
			return 5
		}
		return 4
	case []byte:
		return hashString(string(x)) + 6
	case string:
		return hashString(x) + 7
	}
	return hashString(fmt.Sprintf("%v", v))
}

// stateKey hashes the global state at a choice point: every thread's local
// history and pending operation, the waiting order, every channel's contents,
// every lock's state and acquisition history, and the virtual clock.
func (s *Sched) stateKey(env bool) uint64 {
	h := uint64(14695981039346656037)
	if env {
		h = mix(h, 0xEE)
	}
	// which thread ran last matters only while it can still run (switching
	// away from it is then a preemption); otherwise every choice is free
	if s.last != nil && !s.full && s.enabled(s.last) {
		h = mix(h, uint64(s.last.id)+100)
	}
	if s.running != nil && env {
		h = mix(h, uint64(s.running.id)+200)
	}
	for _, t := range s.threads {
		rank := 0
		for _, u := range s.threads {
			if u.parkSeq < t.parkSeq && u.pend != nil && t.pend != nil && u.pend.ch == t.pend.ch && u.pend.kind == t.pend.kind {
				rank++
			}
		}
		h = mix(h, uint64(t.id), t.hist, uint64(rank))
		if t.done {
			h = mix(h, 0xD0)
		}
		if t.pend != nil {
			h = mix(h, uint64(t.pend.kind)+1)
			if t.pend.ch != nil {
				h = mix(h, uint64(t.pend.ch.id)+1)
			}
			if t.pend.kind == opSend {
				h = mix(h, t.pend.valHash())
			}
			if t.pend.kind == opSleep {
				h = mix(h, uint64(t.pend.wake.UnixNano()))
			}
			for _, c := range t.pend.cases {
				if c.ch != nil {
					h = mix(h, uint64(c.ch.id)+1, c.vh)
				}
			}
			if t.pend.kind == opCond {
				h = mix(h, uint64(t.pend.ticket))
			}
		}
	}
	ids := make([]*chanState, len(s.chans))
	for _, c := range s.chans {
		ids[c.id] = c
	}
	for _, c := range ids {
		h = mix(h, uint64(c.cap)+1, uint64(len(c.buf)))
		if c.closed {
			h = mix(h, 0xC1)
		}
		if c.timer {
			h = mix(h, 0x71, uint64(c.wake.UnixNano()))
			if c.fired {
				h = mix(h, 0xF1)
			}
		}
		for _, v := range c.bufH {
			h = mix(h, v)
		}
	}
	ms := make([]*muState, len(s.mus))
	for _, m := range s.mus {
		ms[m.id] = m
	}
	for _, m := range ms {
		h = mix(h, uint64(m.readers), m.hist)
		if m.writer {
			h = mix(h, 0xA1)
		}
	}
	ws := make([]*wgState, len(s.wgs))
	for _, w := range s.wgs {
		ws[w.id] = w
	}
	for _, w := range ws {
		h = mix(h, uint64(w.n)+9)
	}
	if len(s.conds) > 0 {
		// condition variables: order-insensitive digest of waiting and woken tickets
		var d uint64
		for _, c := range s.conds {
			d += mix(uint64(len(c.waiting))+1, uint64(len(c.woken)), uint64(c.next))
		}
		h = mix(h, d)
	}
	h = mix(h, uint64(s.now.UnixNano()))
	return h
}

func (s *Sched) newThread(name string, fn func()) *thread {
	t := &thread{id: len(s.threads), name: name, wake: make(chan struct{})}
	t.hist = hashString(name)
	if s.running != nil {
		s.running.hist = mix(s.running.hist, 0x60, uint64(t.id))
		t.hist = mix(t.hist, s.running.hist)
	}
	t.pend = &op{kind: opStart}
	t.parkSeq = s.parkCount
	s.parkCount++
	s.threads = append(s.threads, t)
	go func() {
		<-t.wake
		defer func() {
			p := recover()
			t.done = true
			t.pend = nil
			if p != nil {
				if _, isAbort := p.(abortSentinel); !isAbort {
					s.recordPanic(t, p, debug.Stack())
				}
			}
			s.parked <- struct{}{}
		}()
		if t.aborting {
			return
		}
		fn()
	}()
	return t
}

func (s *Sched) recordPanic(t *thread, p interface{}, stack []byte) {
	site := "unknown"
	for _, l := range strings.Split(string(stack), "\n") {
		if strings.HasPrefix(l, "github.com/goblimey/go-ntrip/") {
			f := strings.TrimPrefix(l, "github.com/goblimey/go-ntrip/")
			if i := strings.LastIndex(f, "("); i > 0 {
				f = f[:i]
			}
			site = f
			break
		}
	}
	st := string(stack)
	if len(st) > 1500 {
		st = st[:1500]
	}
	s.x.Panics = append(s.x.Panics, PanicInfo{Thread: t.name, Value: fmt.Sprint(p), Site: site, Stack: st})
}

// park publishes the running thread's pending operation and blocks it until
// the scheduler has committed the operation.
func (s *Sched) park(o *op) *thread {
	t := s.running
	if t.aborting {
		panic(abortSentinel{})
	}
	t.pend = o
	t.spin = 0
	t.parkSeq = s.parkCount
	s.parkCount++
	s.parked <- struct{}{}
	<-t.wake
	if t.aborting {
		panic(abortSentinel{})
	}
	if t.inject != "" {
		msg := t.inject
		t.inject = ""
		panic(runtimeError(msg))
	}
	return t
}

func (o *op) valHash() uint64 {
	if o.vh == 0 {
		o.vh = HashVal(o.val) | 1
	}
	return o.vh
}

type runtimeError string

func (e runtimeError) Error() string { return string(e) }

// timerPending says whether ch is a timer that has not fired and is not yet due.
func (s *Sched) timerPending(ch *chanState) bool {
	return ch != nil && ch.timer && !ch.fired && s.now.Before(ch.wake)
}

// timeDriven says whether t can only proceed by letting virtual time pass
// (a sleep, a receive on a timer, a select whose only ready cases are timers
// that are not yet due).  By default time passes only when nothing else can
// run; letting such a thread go earlier is a deviation ("the timer lands first").
func (s *Sched) timeDriven(t *thread) bool {
	o := t.pend
	if o == nil {
		return false
	}
	switch o.kind {
	case opSleep:
		return s.now.Before(o.wake)
	case opRecv:
		return s.timerPending(o.ch)
	case opSelect:
		if o.hasDefault {
			return false
		}
		timer := false
		for _, c := range o.cases {
			if c.ch == nil {
				continue
			}
			if !c.send && s.timerPending(c.ch) {
				timer = true
				continue
			}
			if (c.send && s.sendReady(t, c.ch)) || (!c.send && s.recvReady(t, c.ch)) {
				return false
			}
		}
		return timer
	}
	return false
}

// wakeOf is the earliest virtual time at which a time-driven thread can proceed.
func (s *Sched) wakeOf(t *thread) time.Time {
	o := t.pend
	switch o.kind {
	case opSleep:
		return o.wake
	case opRecv:
		return o.ch.wake
	case opSelect:
		var best time.Time
		for _, c := range o.cases {
			if c.ch != nil && !c.send && s.timerPending(c.ch) && (best.IsZero() || c.ch.wake.Before(best)) {
				best = c.ch.wake
			}
		}
		return best
	}
	return s.now
}

func (s *Sched) enabled(t *thread) bool {
	if t.done || t.pend == nil {
		return false
	}
	o := t.pend
	switch o.kind {
	case opStart, opClose, opSleep, opYield, opResume:
		return true
	case opSend:
		if o.ch == nil {
			return false
		}
		if !o.ch.closed && !s.firstWaiter(t, opSend, o.ch) {
			return false
		}
		return s.sendReady(t, o.ch)
	case opRecv:
		if o.ch == nil {
			return false
		}
		if !s.firstWaiter(t, opRecv, o.ch) {
			return false
		}
		return s.recvReady(t, o.ch)
	case opSelect:
		if o.hasDefault {
			return true
		}
		for _, c := range o.cases {
			if c.ch == nil {
				continue
			}
			if (c.send && s.sendReady(t, c.ch)) || (!c.send && s.recvReady(t, c.ch)) {
				return true
			}
		}
		return false
	case opLock:
		return !o.mu.writer && o.mu.readers == 0
	case opRLock:
		if o.mu.writer {
			return false
		}
		// writer preference, as in sync.RWMutex: a reader that arrives after a
		// writer has called Lock waits for that writer (this is what makes a
		// nested RLock deadlock when a writer slips in between)
		for _, u := range s.threads {
			if u != t && !u.done && u.pend != nil && u.pend.kind == opLock && u.pend.mu == o.mu && u.pend.rw && u.parkSeq < t.parkSeq {
				return false
			}
		}
		return true
	case opWait:
		return o.wg.n == 0
	case opCond:
		for _, w := range o.cond.woken {
			if w == o.ticket {
				return true
			}
		}
		return false
	}
	return false
}

// sendReady / recvReady say whether a send / receive by t on ch can complete now.
func (s *Sched) sendReady(t *thread, ch *chanState) bool {
	if ch.closed || len(ch.buf) < ch.cap {
		return true
	}
	return ch.cap == 0 && s.waiter(opRecv, ch, t) != nil
}

func (s *Sched) recvReady(t *thread, ch *chanState) bool {
	if ch.timer {
		return !ch.fired
	}
	if len(ch.buf) > 0 || ch.closed {
		return true
	}
	return ch.cap == 0 && s.waiter(opSend, ch, t) != nil
}

// caseOf returns the index of u's select case of the given kind on ch, or -1.
func caseOf(u *thread, kind opKind, ch *chanState) int {
	if u.pend == nil || u.pend.kind != opSelect {
		return -1
	}
	for i, c := range u.pend.cases {
		if c.ch == ch && c.send == (kind == opSend) {
			return i
		}
	}
	return -1
}

// waiter returns the earliest-parked thread other than self with a pending
// operation of the given kind on ch (a plain operation or a select case).
func (s *Sched) waiter(kind opKind, ch *chanState, self *thread) *thread {
	var best *thread
	for _, u := range s.threads {
		if u == self || u.done || u.pend == nil {
			continue
		}
		plain := u.pend.kind == kind && u.pend.ch == ch
		if !plain && caseOf(u, kind, ch) < 0 {
			continue
		}
		if best == nil || u.parkSeq < best.parkSeq {
			best = u
		}
	}
	return best
}

// plainWaiter is waiter restricted to plain (non-select) operations.
func (s *Sched) plainWaiter(kind opKind, ch *chanState) *thread {
	var best *thread
	for _, u := range s.threads {
		if u.done || u.pend == nil || u.pend.kind != kind || u.pend.ch != ch {
			continue
		}
		if best == nil || u.parkSeq < best.parkSeq {
			best = u
		}
	}
	return best
}

// firstWaiter says whether t is the earliest-parked thread with this kind of
// operation on ch (Go queues blocked senders and receivers first-come first-served).
func (s *Sched) firstWaiter(t *thread, kind opKind, ch *chanState) bool {
	w := s.plainWaiter(kind, ch)
	return w == nil || w == t
}

// apply commits t's pending operation.
func (s *Sched) apply(t *thread) {
	o := t.pend
	t.pend = nil
	obj := ""
	switch o.kind {
	case opSend:
		obj = fmt.Sprintf("ch%d", o.ch.id)
		s.doSend(t, o.ch, o.val, o.valHash())
	case opRecv:
		obj = fmt.Sprintf("ch%d", o.ch.id)
		s.doRecv(t, o.ch)
	case opSelect:
		var ready []int
		for i, c := range o.cases {
			if c.ch == nil {
				continue
			}
			if (c.send && s.sendReady(t, c.ch)) || (!c.send && s.recvReady(t, c.ch)) {
				ready = append(ready, i)
			}
		}
		t.selIdx = -1
		if len(ready) > 0 {
			// Go picks among the ready cases at random: all are explored; a timer
			// that is not yet due is taken only as a deviation when another case is ready
			var nowReady, later []int
			for _, i := range ready {
				if !o.cases[i].send && s.timerPending(o.cases[i].ch) {
					later = append(later, i)
				} else {
					nowReady = append(nowReady, i)
				}
			}
			ready = append(nowReady, later...)
			k := 0
			if len(ready) > 1 {
				costs := make([]int, len(ready))
				for j := range ready {
					if j >= len(nowReady) && len(nowReady) > 0 {
						costs[j] = 1
					}
				}
				k = s.takeCosts(costs, true, "select")
			}
			i := ready[k]
			c := o.cases[i]
			t.selIdx = i
			obj = fmt.Sprintf("case%d:ch%d", i, c.ch.id)
			if c.send {
				s.doSend(t, c.ch, c.val, c.vh)
			} else {
				s.doRecv(t, c.ch)
			}
		} else {
			obj = "default"
		}
	case opClose:
		if o.ch == nil {
			t.inject = "close of nil channel"
		} else {
			obj = fmt.Sprintf("ch%d", o.ch.id)
			if o.ch.closed {
				t.inject = "close of closed channel"
			}
			o.ch.closed = true
		}
	case opLock:
		obj = fmt.Sprintf("mu%d", o.mu.id)
		o.mu.writer = true
	case opRLock:
		obj = fmt.Sprintf("mu%d", o.mu.id)
		o.mu.readers++
	case opSleep:
		if s.now.Before(o.wake) {
			s.now = o.wake
		}
	case opYield:
		obj = o.label
	}
	t.steps++
	var chid uint64
	if o.ch != nil {
		chid = uint64(o.ch.id) + 1
	}
	// Local histories are canonical: a completed rendezvous leaves the same
	// marks on both parties whichever of them arrived second.
	switch o.kind {
	case opResume:
	case opRecv:
		okv := uint64(0)
		if t.ok {
			okv = 1
		}
		t.hist = mix(t.hist, uint64(opRecv)+1, chid, t.resH, okv)
	case opSelect:
		t.hist = mix(t.hist, uint64(opSelect)+1, uint64(t.selIdx))
		if t.selIdx >= 0 {
			c := o.cases[t.selIdx]
			if c.send {
				t.hist = mix(t.hist, uint64(opSend)+1, uint64(c.ch.id)+1)
			} else {
				okv := uint64(0)
				if t.ok {
					okv = 1
				}
				t.hist = mix(t.hist, uint64(opRecv)+1, uint64(c.ch.id)+1, t.resH, okv)
			}
		}
	case opLock, opRLock:
		t.hist = mix(t.hist, uint64(o.kind)+1, uint64(o.mu.id))
		o.mu.hist = mix(o.mu.hist, uint64(t.id)+1, uint64(o.kind))
	case opSleep:
		t.hist = mix(t.hist, uint64(o.kind)+1, uint64(s.now.UnixNano()))
	default:
		t.hist = mix(t.hist, uint64(o.kind)+1, chid)
	}
	s.x.traceSum = s.x.traceSum*1099511628211 + uint64(t.id)*31 + uint64(o.kind)*7 + hashString(obj)
	if s.keepTrace {
		s.x.Trace = append(s.x.Trace, fmt.Sprintf("%s:%s:%s", t.name, opNames[o.kind], obj))
	}
}

// doSend completes a send by t (plain or a select case).
func (s *Sched) doSend(t *thread, ch *chanState, val interface{}, vh uint64) {
	switch {
	case ch.closed:
		t.inject = "send on closed channel"
	case ch.cap == 0:
		r := s.waiter(opRecv, ch, t)
		if i := caseOf(r, opRecv, ch); i >= 0 {
			r.selIdx = i
			r.hist = mix(r.hist, uint64(opSelect)+1, uint64(i))
		}
		r.result, r.ok, r.resH = val, true, vh
		r.pend = &op{kind: opResume}
		r.hist = mix(r.hist, uint64(opRecv)+1, uint64(ch.id)+1, vh, 1)
	default:
		ch.buf = append(ch.buf, val)
		ch.bufH = append(ch.bufH, vh)
	}
}

// doRecv completes a receive by t (plain or a select case).
func (s *Sched) doRecv(t *thread, ch *chanState) {
	switch {
	case ch.timer:
		if s.now.Before(ch.wake) {
			s.now = ch.wake
		}
		if ch.ticker {
			ch.wake = s.now.Add(ch.period)
		} else {
			ch.fired = true
		}
		t.result, t.ok, t.resH = s.now, true, uint64(s.now.UnixNano())
	case len(ch.buf) > 0:
		wasFull := len(ch.buf) == ch.cap
		t.result, t.ok = ch.buf[0], true
		t.resH = ch.bufH[0]
		ch.buf = ch.buf[1:]
		ch.bufH = ch.bufH[1:]
		// as the runtime does: when the buffer was full, the longest-waiting sender's
		// value takes the freed slot in the same step (len(ch) stays at cap(ch))
		if w := s.waiter(opSend, ch, t); wasFull && w != nil {
			var val interface{}
			var vh uint64
			if i := caseOf(w, opSend, ch); i >= 0 {
				c := w.pend.cases[i]
				val, vh = c.val, c.vh
				w.selIdx = i
				w.hist = mix(w.hist, uint64(opSelect)+1, uint64(i))
			} else {
				val, vh = w.pend.val, w.pend.valHash()
			}
			ch.buf = append(ch.buf, val)
			ch.bufH = append(ch.bufH, vh)
			w.pend = &op{kind: opResume}
			w.hist = mix(w.hist, uint64(opSend)+1, uint64(ch.id)+1)
		}
	case ch.closed:
		t.result, t.ok = nil, false
		t.resH = 1
	default:
		w := s.waiter(opSend, ch, t)
		if i := caseOf(w, opSend, ch); i >= 0 {
			c := w.pend.cases[i]
			t.result, t.ok, t.resH = c.val, true, c.vh
			w.selIdx = i
			w.hist = mix(w.hist, uint64(opSelect)+1, uint64(i))
		} else {
			t.result, t.ok = w.pend.val, true
			t.resH = w.pend.valHash()
		}
		w.pend = &op{kind: opResume}
		w.hist = mix(w.hist, uint64(opSend)+1, uint64(ch.id)+1)
	}
}

func hashString(s string) uint64 {
	var h uint64 = 1469598103934665603
	for i := 0; i < len(s); i++ {
		h = (h ^ uint64(s[i])) * 1099511628211
	}
	return h
}

// watchdog for a thread that does not come back to the scheduler.
var Watchdog = 60 * time.Second

// MachineryFailure is raised (as a panic in the explorer) when the scheduler
// loses control: a thread blocked outside the hooks, or a replay diverged.
type MachineryFailure string

func (s *Sched) waitParked() {
	progress++
	<-s.parked
}

// progress counts scheduler steps; the watchdog goroutine exits the process
// (status 3, reported by the coordinator as a machinery failure, never as a
// verdict) when an active execution makes no step for Watchdog.
var progress uint64
var watchdogOnce bool

func startWatchdog() {
	if watchdogOnce {
		return
	}
	watchdogOnce = true
	go func() {
		last, since := uint64(0), time.Now()
		for {
			time.Sleep(time.Second)
			p := progress
			if cur == nil || p != last {
				last, since = p, time.Now()
				continue
			}
			if time.Since(since) > Watchdog {
				name := "?"
				if s := cur; s != nil && s.running != nil {
					name = s.running.name
				}
				fmt.Fprintf(os.Stderr, "MACHINERY FAILURE: thread %q did not reach a hooked operation within %v (blocked outside the scheduler or spinning)\n", name, Watchdog)
				os.Exit(3)
			}
		}
	}()
}

// run executes body as the main thread under this scheduler until the
// system is quiescent, then releases every remaining thread.
func (s *Sched) run(body func()) *X {
	startWatchdog()
	cur = s
	defer func() { cur = nil }()
	s.newThread("main", body)
	steps := 0
	for {
		if len(s.x.Panics) > 0 {
			s.x.End = EndPanic
			break
		}
		if s.stop {
			s.x.End = EndStopped
			break
		}
		// canonical enabled list: previously running thread first, then by id,
		// then low-priority harness threads, then threads that need time to pass
		var en []*thread
		runnable := false
		if s.last != nil && s.enabled(s.last) && !s.timeDriven(s.last) {
			en = append(en, s.last)
			runnable = true
		}
		for _, t := range s.threads {
			if t != s.last && !t.low && s.enabled(t) && !s.timeDriven(t) {
				en = append(en, t)
			}
		}
		for _, t := range s.threads {
			if t != s.last && t.low && s.enabled(t) && !s.timeDriven(t) {
				en = append(en, t)
			}
		}
		normal := len(en)
		// threads waiting for time: earliest wake first (discrete-event order)
		var timed []*thread
		for _, t := range s.threads {
			if s.enabled(t) && s.timeDriven(t) {
				timed = append(timed, t)
			}
		}
		sort.SliceStable(timed, func(i, j int) bool { return s.wakeOf(timed[i]).Before(s.wakeOf(timed[j])) })
		en = append(en, timed...)
		if len(en) == 0 {
			allDone := true
			for _, t := range s.threads {
				if !t.done {
					allDone = false
				}
			}
			if allDone {
				s.x.End = EndAllDone
			} else {
				s.x.End = EndQuiescent
			}
			break
		}
		if steps >= s.horizon {
			s.x.End = EndHorizon
			break
		}
		steps++
		c := 0
		if len(en) > 1 {
			// costs: switching away from a thread that could go on is a preemption;
			// letting time pass while something else could run is a deviation too
			costs := make([]int, len(en))
			for i := range en {
				switch {
				case i == 0:
				case i < normal:
					if runnable {
						costs[i] = 1
					}
				default:
					if normal > 0 {
						costs[i] = 1
					}
				}
			}
			c = s.takeCosts(costs, false, "sched")
			s.x.points[len(s.x.points)-1].runnable = runnable
		}
		t := en[c]
		s.apply(t)
		s.running, s.last = t, t
		t.wake <- struct{}{}
		s.waitParked()
	}
	s.x.Steps = steps
	s.x.Threads = len(s.threads)
	for _, t := range s.threads {
		if !t.done {
			desc := "running"
			if t.pend != nil {
				desc = opNames[t.pend.kind]
				if t.pend.ch != nil {
					desc += fmt.Sprintf(" ch%d", t.pend.ch.id)
				}
			}
			s.x.Blocked = append(s.x.Blocked, BlockedInfo{Thread: t.name, Op: desc})
		}
	}
	// release every remaining thread in abort mode
	for _, t := range s.threads {
		if !t.done {
			t.aborting = true
			s.running = t
			t.wake <- struct{}{}
			s.waitParked()
		}
	}
	return s.x
}

// chanOf returns the model state of a channel, registering it at first use.
func (s *Sched) chanOf(key interface{}, capacity int, pin ...interface{}) *chanState {
	c, ok := s.chans[key]
	if !ok {
		c = &chanState{id: len(s.chans), cap: capacity}
		if len(pin) > 0 {
			c.pin = pin[0]
		}
		s.chans[key] = c
	}
	return c
}
