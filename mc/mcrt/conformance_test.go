package mcrt

import (
	"fmt"
	"strings"
	"sync"
	"testing"
	"time"
)

// The conformance suite binds the scheduler's channel / mutex / wait-group
// semantics to the real Go runtime: every micro-program is (a) explored
// exhaustively under the scheduler and (b) run 200 times on the real runtime
// through the same hooks in pass-through mode.  Every real outcome must be in
// the explored set; for deterministic programs the sets must be equal.

type confProg struct {
	name          string
	deterministic bool
	body          func(rec func(string))
}

func confPrograms() []confProg {
	return []confProg{
		{"rendezvous-order", true, func(rec func(string)) {
			ch := make(chan int)
			Go("p", func() { Send(ch, 1); Send(ch, 2); Send(ch, 3); Close(ch) })
			for {
				v, ok := Recv2(ch)
				if !ok {
					break
				}
				rec(fmt.Sprint(v))
			}
		}},
		{"buffered-fifo", true, func(rec func(string)) {
			ch := make(chan int, 3)
			Send(ch, 1)
			Send(ch, 2)
			Send(ch, 3)
			Close(ch)
			for {
				v, ok := Recv2(ch)
				if !ok {
					break
				}
				rec(fmt.Sprint(v))
			}
		}},
		{"recv-on-closed-zero-false", true, func(rec func(string)) {
			ch := make(chan string, 1)
			Close(ch)
			v, ok := Recv2(ch)
			rec(fmt.Sprintf("%q/%v", v, ok))
			v, ok = Recv2(ch)
			rec(fmt.Sprintf("%q/%v", v, ok))
		}},
		{"close-wakes-blocked-receiver", true, func(rec func(string)) {
			ch := make(chan int)
			done := make(chan bool)
			Go("r", func() { _, ok := Recv2(ch); rec(fmt.Sprint("recv-ok=", ok)); Send(done, true) })
			Close(ch)
			Recv(done)
		}},
		{"double-close-panics", true, func(rec func(string)) {
			ch := make(chan int)
			Close(ch)
			Close(ch)
		}},
		{"send-on-closed-panics", true, func(rec func(string)) {
			ch := make(chan int, 1)
			Close(ch)
			Send(ch, 1)
		}},
		{"two-producers", false, func(rec func(string)) {
			ch := make(chan int)
			Go("a", func() { Send(ch, 1) })
			Go("b", func() { Send(ch, 2) })
			rec(fmt.Sprint(Recv(ch)))
			rec(fmt.Sprint(Recv(ch)))
		}},
		{"buffered-two-producers-slow-consumer", false, func(rec func(string)) {
			ch := make(chan int, 1)
			fin := make(chan bool, 2)
			Go("a", func() { Send(ch, 1); Send(ch, 3); Send(fin, true) })
			Go("b", func() { Send(ch, 2); Send(fin, true) })
			for i := 0; i < 3; i++ {
				rec(fmt.Sprint(Recv(ch)))
			}
			Recv(fin)
			Recv(fin)
		}},
		{"mutex-counter", true, func(rec func(string)) {
			key := new(int)
			n := 0
			fin := make(chan bool, 3)
			for i := 0; i < 3; i++ {
				Go("w", func() { MuLockReal(key); n++; MuUnlockReal(key); Send(fin, true) })
			}
			for i := 0; i < 3; i++ {
				Recv(fin)
			}
			rec(fmt.Sprint(n))
		}},
		{"pipeline-close-propagates", true, func(rec func(string)) {
			a := make(chan int)
			b := make(chan int, 1)
			Go("stage", func() {
				for {
					v, ok := Recv2(a)
					if !ok {
						Close(b)
						return
					}
					Send(b, v*10)
				}
			})
			Go("src", func() { Send(a, 1); Send(a, 2); Close(a) })
			for {
				v, ok := Recv2(b)
				if !ok {
					break
				}
				rec(fmt.Sprint(v))
			}
		}},
		{"nil-interface-value", true, func(rec func(string)) {
			ch := make(chan error, 1)
			Send(ch, nil)
			v, ok := Recv2(ch)
			rec(fmt.Sprint(v, ok))
		}},
	}
}

// realMutexes lets the conformance programs use one lock API in both modes.
var (
	realMu   sync.Mutex
	realLock = map[interface{}]*sync.Mutex{}
)

// MuLockReal locks through the scheduler when active, else a real mutex.
func MuLockReal(key interface{}) {
	if MuLock(key) {
		return
	}
	realMu.Lock()
	m, ok := realLock[key]
	if !ok {
		m = &sync.Mutex{}
		realLock[key] = m
	}
	realMu.Unlock()
	m.Lock()
}

// MuUnlockReal is the counterpart of MuLockReal.
func MuUnlockReal(key interface{}) {
	if MuUnlock(key) {
		return
	}
	realMu.Lock()
	m := realLock[key]
	realMu.Unlock()
	m.Unlock()
}

func TestConformanceWithGoRuntime(t *testing.T) {
	for _, p := range confPrograms() {
		p := p
		t.Run(p.name, func(t *testing.T) {
			explored, st := outcomes(t, 1<<20, func(rec func(string)) { p.body(rec) })
			if !st.Unbounded {
				t.Fatalf("exploration not exhaustive: %+v", st)
			}
			// strip the end-state suffix; keep log and panic text
			model := map[string]bool{}
			for k := range explored {
				parts := strings.Split(k, "|")
				key := parts[0]
				for _, x := range parts[2:] {
					key += "|" + x
				}
				model[key] = true
			}
			real := map[string]bool{}
			for i := 0; i < 200; i++ {
				var mu sync.Mutex
				var log []string
				pan := ""
				done := make(chan struct{})
				go func() {
					defer func() {
						if x := recover(); x != nil {
							pan = "|panic:" + fmt.Sprint(x)
						}
						close(done)
					}()
					p.body(func(s string) { mu.Lock(); log = append(log, s); mu.Unlock() })
				}()
				<-done
				real[strings.Join(log, ",")+pan] = true
			}
			for k := range real {
				if !model[k] {
					t.Errorf("real runtime produced %q which the scheduler never explores (explored: %v)", k, keys(model))
				}
			}
			if p.deterministic && (len(real) != 1 || len(model) != 1) {
				t.Errorf("deterministic program: real %v explored %v", keys(real), keys(model))
			}
			t.Logf("explored %d outcome(s) in %d executions; real runtime showed %d", len(model), st.Executions, len(real))
		})
	}
}

func TestSelectSemantics(t *testing.T) {
	// timeout vs completion: both outcomes must be explored
	o, st := outcomes(t, 1<<20, func(rec func(string)) {
		done := make(chan struct{})
		Go("worker", func() { Yield("work"); Close(done) })
		sel := NewSelect()
		SelRecv(sel, done)
		SelRecv(sel, After(5*time.Second))
		switch sel.Do() {
		case 0:
			rec("done")
		case 1:
			rec("timeout")
		}
	})
	if !st.Unbounded || len(o) != 2 {
		t.Fatalf("want both select outcomes, got %v", keys(o))
	}
	// a send case completes by rendezvous with a plain receiver
	o, _ = outcomes(t, 1<<20, func(rec func(string)) {
		ch := make(chan int)
		got := make(chan int, 1)
		Go("r", func() { Send(got, Recv(ch)) })
		sel := NewSelect()
		SelSend(sel, ch, 7)
		if sel.Do() != 0 {
			rec("wrong case")
		}
		rec(fmt.Sprint(Recv(got)))
	})
	if len(o) != 1 || !o["7|"+EndAllDone] {
		t.Fatalf("got %v", keys(o))
	}
	// default is taken when (and only when) nothing is ready
	o, _ = outcomes(t, 1<<20, func(rec func(string)) {
		ch := make(chan int, 1)
		sel := NewSelect()
		r := SelRecv(sel, ch)
		sel.Default()
		rec(fmt.Sprint(sel.Do()))
		Send(ch, 3)
		sel = NewSelect()
		r = SelRecv(sel, ch)
		sel.Default()
		rec(fmt.Sprint(sel.Do(), r.Val, r.Ok))
	})
	if len(o) != 1 || !o["-1,0 3 true|"+EndAllDone] {
		t.Fatalf("got %v", keys(o))
	}
	// plain sender completes a select receive and the value arrives typed
	o, _ = outcomes(t, 1<<20, func(rec func(string)) {
		a := make(chan string)
		b := make(chan string)
		Go("sa", func() { Send(a, "A") })
		Go("sb", func() { Send(b, "B") })
		for i := 0; i < 2; i++ {
			sel := NewSelect()
			ra := SelRecv(sel, a)
			rb := SelRecv(sel, b)
			switch sel.Do() {
			case 0:
				rec(ra.Val)
			case 1:
				rec(rb.Val)
			}
		}
	})
	if len(o) != 2 || !o["A,B|"+EndAllDone] || !o["B,A|"+EndAllDone] {
		t.Fatalf("got %v", keys(o))
	}
}

func TestNestedRLockDeadlocksWhenAWriterSlipsIn(t *testing.T) {
	o, _ := outcomes(t, 1<<20, func(rec func(string)) {
		key := new(int)
		fin := make(chan bool, 2)
		Go("reader", func() {
			MuRLock(key)
			Yield("between")
			MuRLock(key)
			MuRUnlock(key)
			MuRUnlock(key)
			Send(fin, true)
		})
		Go("writer", func() { RWLock(key); MuUnlock(key); Send(fin, true) })
		Recv(fin)
		Recv(fin)
		rec("both done")
	})
	if !o["both done|"+EndAllDone] || !o["|"+EndQuiescent] {
		t.Fatalf("want both the clean run and the deadlock, got %v", keys(o))
	}
}

func TestTimersAndTickers(t *testing.T) {
	o, _ := outcomes(t, 1<<20, func(rec func(string)) {
		tm := NewTimer(time.Second)
		if tm.Stop() {
			rec("stopped")
		}
		done := make(chan struct{})
		Go("w", func() { Close(done) })
		sel := NewSelect()
		SelRecv(sel, tm.C)
		SelRecv(sel, done)
		rec(fmt.Sprint("case", sel.Do()))
	})
	if len(o) != 1 || !o["stopped,case1|"+EndAllDone] {
		t.Fatalf("a stopped timer must never fire: %v", keys(o))
	}
	o, _ = outcomes(t, 1<<20, func(rec func(string)) {
		tk := NewTicker(10 * time.Millisecond)
		a := Recv(tk.C)
		b := Recv(tk.C)
		tk.Stop()
		rec(fmt.Sprint(b.Sub(a) >= 10*time.Millisecond, Elapsed() >= 20*time.Millisecond))
		fired := make(chan bool, 1)
		AfterFunc(time.Minute, func() { Send(fired, true) })
		Recv(fired)
		rec(fmt.Sprint(Elapsed() >= time.Minute))
	})
	if len(o) != 1 || !o["true true,true|"+EndAllDone] {
		t.Fatalf("ticker/AfterFunc: %v", keys(o))
	}
}

func TestCondSignal(t *testing.T) {
	o, _ := outcomes(t, 1<<20, func(rec func(string)) {
		key, ck := new(int), new(int)
		ready := false
		fin := make(chan bool, 1)
		Go("waiter", func() {
			MuLock(key)
			for !ready {
				tk := CondEnqueue(ck)
				MuUnlock(key)
				CondWait(ck, tk)
				MuLock(key)
			}
			MuUnlock(key)
			Send(fin, true)
		})
		MuLock(key)
		ready = true
		MuUnlock(key)
		CondWake(ck, false)
		Recv(fin)
		rec("woken")
	})
	if len(o) != 1 || !o["woken|"+EndAllDone] {
		t.Fatalf("got %v", keys(o))
	}
}
