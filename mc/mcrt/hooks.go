package mcrt

import (
	"fmt"
	"io"
	"os"
	"reflect"
	"time"
	"unsafe"
)

// chanKey identifies a channel independently of its static type (named,
// directional): a channel value is a pointer to its runtime object.
func chanKey[C any](ch C) uintptr { return *(*uintptr)(unsafe.Pointer(&ch)) }

// Hooks called by instrumented code.  With no exploration active they are the
// plain Go operations.

// Send is `ch <- v`.
func Send[C ~chan T | ~chan<- T, T any](ch C, v T) {
	s := cur
	if s == nil {
		ch <- v
		return
	}
	if s.running.aborting {
		return
	}
	var cs *chanState
	if ch != nil {
		cs = s.chanOf(chanKey(ch), cap(ch), ch)
	}
	s.park(&op{kind: opSend, ch: cs, val: v})
}

// Recv2 is `v, ok := <-ch`.
func Recv2[C ~chan T | ~<-chan T, T any](ch C) (T, bool) {
	s := cur
	if s == nil {
		v, ok := <-ch
		return v, ok
	}
	var zero T
	if s.running.aborting {
		return zero, false
	}
	var cs *chanState
	if ch != nil {
		cs = s.chanOf(chanKey(ch), cap(ch), ch)
	}
	t := s.park(&op{kind: opRecv, ch: cs})
	if !t.ok || t.result == nil {
		return zero, t.ok
	}
	v := t.result.(T)
	t.result = nil
	return v, true
}

// Recv is `<-ch`.
func Recv[C ~chan T | ~<-chan T, T any](ch C) T {
	v, _ := Recv2[C, T](ch)
	return v
}

// Close is `close(ch)`.
func Close[C ~chan T | ~chan<- T, T any](ch C) {
	s := cur
	if s == nil {
		close(ch)
		return
	}
	if s.running.aborting {
		return
	}
	var cs *chanState
	if ch != nil {
		cs = s.chanOf(chanKey(ch), cap(ch), ch)
	}
	s.park(&op{kind: opClose, ch: cs})
}

// Go is the `go` statement; the caller has already evaluated function value
// and arguments into the closure.
func Go(name string, fn func()) {
	s := cur
	if s == nil {
		go fn()
		return
	}
	if s.running.aborting {
		return
	}
	s.newThread(name, fn)
}

// GoLow starts a harness thread that the default schedule runs only when no
// other thread can (timers, gate openers); every other placement is reached
// through the explorer's alternatives.
func GoLow(name string, fn func()) {
	s := cur
	if s == nil {
		go fn()
		return
	}
	if s.running.aborting {
		return
	}
	s.newThread(name, fn).low = true
}

// Yield is a pure scheduling point (inserted at function and loop entry in
// packages whose interference is through unsynchronised memory).
func Yield(label string) {
	s := cur
	if s == nil || s.running == nil || s.running.aborting {
		return
	}
	s.park(&op{kind: opYield, label: label})
}

// SpinLimit is the number of loop iterations one thread may perform without
// reaching a scheduling point before the execution is declared a livelock.
// It is a count, not a duration, so the verdict is the same on every run.
var SpinLimit = 20000000

// Spin is inserted at the top of every `for` body of instrumented packages
// that do not get yield points.  A thread that goes round a loop SpinLimit
// times without a hooked operation in between is spinning: nothing another
// thread does can be observed by it, so it will never leave the loop.
func Spin(label string) {
	s := cur
	if s == nil || s.running == nil {
		return
	}
	t := s.running
	if t.aborting {
		return
	}
	t.spin++
	if t.spin > SpinLimit {
		t.spin = 0
		panic(fmt.Sprintf("livelock: thread %q went round the loop at %s %d times without reaching a scheduling point", t.name, label, SpinLimit))
	}
}

// SetClock sets the virtual clock (the system clock the program sees).  It is
// meant for the first statement of a scenario body: the host's clock is part of
// the environment a scenario chooses.
func SetClock(t time.Time) {
	if s := cur; s != nil {
		s.now = t
	}
}

// Now is time.Now on the virtual clock.
func Now() time.Time {
	s := cur
	if s == nil {
		return time.Now()
	}
	// the value read becomes part of the reader's local state
	if s.running != nil {
		s.running.hist = mix(s.running.hist, 0x70, uint64(s.now.UnixNano()))
	}
	return s.now
}

// Note mixes an observation made by harness code (typically a read of state
// owned by another thread) into the running thread's local history, so that
// state-key pruning never merges executions whose observations differ.
func Note(v uint64) {
	s := cur
	if s == nil || s.running == nil {
		return
	}
	s.running.hist = mix(s.running.hist, 0x71, v)
}

// Since is time.Since on the virtual clock.
func Since(t time.Time) time.Duration { return Now().Sub(t) }

// Sleep is time.Sleep on the virtual clock.  The sleeper may be resumed at
// any later scheduling step; the clock then jumps to its wake time.
func Sleep(d time.Duration) {
	s := cur
	if s == nil {
		time.Sleep(d)
		return
	}
	if s.running.aborting {
		return
	}
	s.park(&op{kind: opSleep, wake: s.now.Add(d)})
}

// Choose is an environment choice point with n alternatives; alternative 0
// is the default answer and every other one costs one deviation.
func Choose(n int, label string) int {
	s := cur
	if s == nil || n <= 1 || s.running == nil || s.running.aborting {
		return 0
	}
	return s.take(n, true, false, false, label)
}

// ChooseFree is a choice point whose alternatives cost nothing (all are explored).
func ChooseFree(n int, label string) int {
	s := cur
	if s == nil || n <= 1 || s.running == nil || s.running.aborting {
		return 0
	}
	return s.take(n, true, true, false, label)
}

// ResetLocal replaces the running thread's local-history hash by h.  The
// caller asserts that the thread's entire local state at this point is a
// function of h (used by harness sources whose reader thread's state is just
// the source position), so that executions which reach the same position by
// different routes share one state key.
func ResetLocal(h uint64) {
	s := cur
	if s == nil || s.running == nil || s.running.aborting {
		return
	}
	s.running.hist = mix(hashString(s.running.name), h)
}

// Stop ends the execution at the next scheduling step (harness horizon).
func Stop() {
	if s := cur; s != nil {
		s.stop = true
	}
}

// Aborting tells harness code that the execution is being torn down.
func Aborting() bool {
	s := cur
	return s != nil && s.running != nil && s.running.aborting
}

// Elapsed is the virtual time since the start of the execution.
func Elapsed() time.Duration {
	if s := cur; s != nil {
		return s.now.Sub(Epoch)
	}
	return 0
}

// Stdin and Stdout replace os.Stdin / os.Stdout in instrumented programs.
var (
	Stdin  io.Reader = os.Stdin
	Stdout io.Writer = os.Stdout
)

// NewDailySink replaces dailylogger.New where the result is only used as an
// io.Writer; the harness installs the factory.
var NewDailySink = func(dir, leader, trailer string) io.Writer { return io.Discard }

// ----- sync shims (used by package vsync) -----

// RWLock is MuLock for the write side of an RWMutex (its waiting blocks later readers).
func RWLock(key interface{}) bool {
	s := cur
	if s == nil {
		return false
	}
	if s.running.aborting {
		return true
	}
	s.park(&op{kind: opLock, mu: s.muOf(key), rw: true})
	return true
}

// MuLock acquires the write lock of the mutex identified by key.
func MuLock(key interface{}) bool {
	s := cur
	if s == nil {
		return false
	}
	if s.running.aborting {
		return true
	}
	s.park(&op{kind: opLock, mu: s.muOf(key)})
	return true
}

// MuTryLock is sync.(RW)Mutex.TryLock / TryRLock: a scheduling point, after
// which the attempt succeeds or fails on the lock state found; it never blocks.
// The outcome becomes part of the caller's local history.
func MuTryLock(key interface{}, read bool) (handled, got bool) {
	s := cur
	if s == nil {
		return false, false
	}
	t := s.running
	if t.aborting {
		return true, false
	}
	s.park(&op{kind: opYield, label: "trylock"})
	m := s.muOf(key)
	switch {
	case read:
		got = !m.writer
		if got {
			// as the runtime does, fail when a writer is already waiting
			for _, u := range s.threads {
				if u != t && !u.done && u.pend != nil && u.pend.kind == opLock && u.pend.mu == m && u.pend.rw {
					got = false
				}
			}
		}
		if got {
			m.readers++
		}
	default:
		got = !m.writer && m.readers == 0
		if got {
			m.writer = true
		}
	}
	g := uint64(0)
	if got {
		g = 1
		m.hist = mix(m.hist, uint64(t.id)+1, uint64(opLock), 0x7)
	}
	t.hist = mix(t.hist, 0x71, uint64(m.id), g)
	return true, got
}

// MuUnlock releases it.
func MuUnlock(key interface{}) bool {
	s := cur
	if s == nil {
		return false
	}
	if s.running.aborting {
		return true
	}
	m := s.muOf(key)
	if !m.writer {
		panic(runtimeError("sync: unlock of unlocked mutex"))
	}
	m.writer = false
	return true
}

// MuRLock acquires a read lock.
func MuRLock(key interface{}) bool {
	s := cur
	if s == nil {
		return false
	}
	if s.running.aborting {
		return true
	}
	s.park(&op{kind: opRLock, mu: s.muOf(key)})
	return true
}

// MuRUnlock releases a read lock.
func MuRUnlock(key interface{}) bool {
	s := cur
	if s == nil {
		return false
	}
	if s.running.aborting {
		return true
	}
	m := s.muOf(key)
	if m.readers <= 0 {
		panic(runtimeError("sync: RUnlock of unlocked RWMutex"))
	}
	m.readers--
	return true
}

// WGAdd adjusts a wait-group counter.
func WGAdd(key interface{}, n int) bool {
	s := cur
	if s == nil {
		return false
	}
	if s.running.aborting {
		return true
	}
	w := s.wgOf(key)
	w.n += n
	if w.n < 0 {
		panic(runtimeError("sync: negative WaitGroup counter"))
	}
	return true
}

// WGWait blocks until the counter is zero.
func WGWait(key interface{}) bool {
	s := cur
	if s == nil {
		return false
	}
	if s.running.aborting {
		return true
	}
	s.park(&op{kind: opWait, wg: s.wgOf(key)})
	return true
}

func (s *Sched) muOf(key interface{}) *muState {
	m, ok := s.mus[key]
	if !ok {
		m = &muState{id: len(s.mus)}
		s.mus[key] = m
	}
	return m
}

func (s *Sched) wgOf(key interface{}) *wgState {
	w, ok := s.wgs[key]
	if !ok {
		w = &wgState{id: len(s.wgs)}
		s.wgs[key] = w
	}
	return w
}

// After is time.After on the virtual clock: the returned channel delivers its
// single value at any later step of the explorer's choosing (time may pass
// arbitrarily fast relative to computation); the clock then jumps to the wake time.
func After(d time.Duration) chan time.Time {
	ch := make(chan time.Time, 1)
	s := cur
	if s == nil {
		go func() { time.Sleep(d); ch <- time.Now() }()
		return ch
	}
	if s.running != nil && s.running.aborting {
		return ch
	}
	cs := s.chanOf(chanKey(ch), 1, ch)
	cs.timer, cs.wake = true, s.now.Add(d)
	return ch
}

// Sel is a select statement under construction (see cmd/instr).
type Sel struct {
	cases      []selCase
	real       []reflect.SelectCase
	hasDefault bool
	recvs      []func(v interface{}, ok bool)
	chosen     int
}

// RecvCase is the typed result slot of one receive case.
type RecvCase[T any] struct {
	Val T
	Ok  bool
}

// NewSelect starts a select.
func NewSelect() *Sel { return &Sel{} }

// SelRecv adds `case v, ok := <-ch`.
func SelRecv[C ~chan T | ~<-chan T, T any](sl *Sel, ch C) *RecvCase[T] {
	rc := &RecvCase[T]{}
	var cs *chanState
	if s := cur; s != nil && !reflect.ValueOf(ch).IsNil() && !(s.running != nil && s.running.aborting) {
		cs = s.chanOf(chanKey(ch), cap(ch), ch)
	}
	sl.cases = append(sl.cases, selCase{ch: cs})
	sl.real = append(sl.real, reflect.SelectCase{Dir: reflect.SelectRecv, Chan: reflect.ValueOf(ch)})
	sl.recvs = append(sl.recvs, func(v interface{}, ok bool) {
		rc.Ok = ok
		if ok && v != nil {
			rc.Val = v.(T)
		}
	})
	return rc
}

// SelSend adds `case ch <- v`.
func SelSend[C ~chan T | ~chan<- T, T any](sl *Sel, ch C, v T) {
	var cs *chanState
	if s := cur; s != nil && !reflect.ValueOf(ch).IsNil() && !(s.running != nil && s.running.aborting) {
		cs = s.chanOf(chanKey(ch), cap(ch), ch)
	}
	sl.cases = append(sl.cases, selCase{send: true, ch: cs, val: v, vh: HashVal(v) | 1})
	sl.real = append(sl.real, reflect.SelectCase{Dir: reflect.SelectSend, Chan: reflect.ValueOf(ch), Send: reflect.ValueOf(v)})
	sl.recvs = append(sl.recvs, nil)
}

// Default adds a default case.
func (sl *Sel) Default() { sl.hasDefault = true }

// Do blocks until one case proceeds and returns its index (-1 = default).
func (sl *Sel) Do() int {
	s := cur
	if s == nil {
		cases := sl.real
		if sl.hasDefault {
			cases = append(append([]reflect.SelectCase{}, cases...), reflect.SelectCase{Dir: reflect.SelectDefault})
		}
		i, v, ok := reflect.Select(cases)
		if i >= len(sl.real) {
			return -1
		}
		if f := sl.recvs[i]; f != nil {
			var val interface{}
			if ok {
				val = v.Interface()
			}
			f(val, ok)
		}
		return i
	}
	if s.running.aborting {
		panic(abortSentinel{})
	}
	t := s.park(&op{kind: opSelect, cases: sl.cases, hasDefault: sl.hasDefault})
	i := t.selIdx
	if i >= 0 {
		if f := sl.recvs[i]; f != nil {
			f(t.result, t.ok)
			t.result = nil
		}
	}
	return i
}

// Len is len(ch) for a channel: the number of values buffered in the model.
func Len(ch interface{}) int {
	s := cur
	v := reflect.ValueOf(ch)
	if s == nil {
		return v.Len()
	}
	if v.IsNil() {
		return 0
	}
	if cs, ok := s.chans[v.Pointer()]; ok {
		return len(cs.buf)
	}
	return 0
}

// ---- timers (time.NewTimer, time.AfterFunc, time.NewTicker, time.Tick) ----

// Timer is time.Timer on the virtual clock.
type Timer struct {
	C    chan time.Time
	real *time.Timer
	fn   func()
	dead bool
}

// NewTimer is time.NewTimer.
func NewTimer(d time.Duration) *Timer {
	if cur == nil {
		rt := time.NewTimer(d)
		t := &Timer{C: make(chan time.Time, 1), real: rt}
		go func() {
			v, ok := <-rt.C
			if ok {
				t.C <- v
			}
		}()
		return t
	}
	return &Timer{C: After(d)}
}

// Stop is (*time.Timer).Stop.
func (t *Timer) Stop() bool {
	s := cur
	if s == nil {
		if t.real != nil {
			return t.real.Stop()
		}
		return false
	}
	if t.fn != nil {
		was := !t.dead
		t.dead = true
		return was
	}
	if cs, ok := s.chans[chanKey(t.C)]; ok {
		was := !cs.fired
		cs.fired = true // never delivers from now on
		return was
	}
	return false
}

// Reset is (*time.Timer).Reset.
func (t *Timer) Reset(d time.Duration) bool {
	s := cur
	if s == nil {
		if t.real != nil {
			return t.real.Reset(d)
		}
		return false
	}
	if cs, ok := s.chans[chanKey(t.C)]; ok {
		was := !cs.fired
		cs.fired, cs.wake = false, s.now.Add(d)
		return was
	}
	return false
}

// AfterFunc is time.AfterFunc: f runs in its own thread at some later step.
func AfterFunc(d time.Duration, f func()) *Timer {
	if cur == nil {
		return &Timer{real: time.AfterFunc(d, f)}
	}
	t := &Timer{fn: f}
	GoLow("time.AfterFunc", func() {
		Sleep(d)
		if !t.dead {
			t.dead = true
			f()
		}
	})
	return t
}

// Ticker is time.Ticker on the virtual clock: a tick is available at every
// step (time may pass arbitrarily fast); each tick advances the clock by the period.
type Ticker struct {
	C    chan time.Time
	real *time.Ticker
}

// NewTicker is time.NewTicker.
func NewTicker(d time.Duration) *Ticker {
	s := cur
	if s == nil {
		rt := time.NewTicker(d)
		t := &Ticker{C: make(chan time.Time, 1), real: rt}
		go func() {
			for v := range rt.C {
				select {
				case t.C <- v:
				default:
				}
			}
		}()
		return t
	}
	t := &Ticker{C: make(chan time.Time, 1)}
	cs := s.chanOf(chanKey(t.C), 1, t.C)
	cs.timer, cs.ticker, cs.period, cs.wake = true, true, d, s.now.Add(d)
	return t
}

// Stop is (*time.Ticker).Stop.
func (t *Ticker) Stop() {
	s := cur
	if s == nil {
		if t.real != nil {
			t.real.Stop()
		}
		return
	}
	if cs, ok := s.chans[chanKey(t.C)]; ok {
		cs.fired, cs.ticker = true, false
	}
}

// Tick is time.Tick.
func Tick(d time.Duration) chan time.Time { return NewTicker(d).C }

// ---- sync.Cond (package vsync) ----

// CondEnqueue registers the running thread as a waiter of the condition
// variable identified by key and returns its ticket.
func CondEnqueue(key interface{}) int {
	s := cur
	if s == nil {
		return 0
	}
	if s.conds == nil {
		s.conds = map[interface{}]*condState{}
	}
	c := s.conds[key]
	if c == nil {
		c = &condState{}
		s.conds[key] = c
	}
	c.next++
	c.waiting = append(c.waiting, c.next)
	return c.next
}

// CondWait blocks until the ticket has been woken by Signal or Broadcast.
func CondWait(key interface{}, ticket int) {
	s := cur
	if s == nil || s.running.aborting {
		return
	}
	s.park(&op{kind: opCond, cond: s.conds[key], ticket: ticket})
}

// CondWake wakes one (the longest waiting) or all waiters.
func CondWake(key interface{}, all bool) bool {
	s := cur
	if s == nil {
		return false
	}
	if s.running.aborting || s.conds == nil || s.conds[key] == nil {
		return true
	}
	c := s.conds[key]
	n := 1
	if all {
		n = len(c.waiting)
	}
	for i := 0; i < n && len(c.waiting) > 0; i++ {
		c.woken = append(c.woken, c.waiting[0])
		c.waiting = c.waiting[1:]
	}
	return true
}
