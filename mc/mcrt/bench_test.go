package mcrt

import "testing"

func BenchmarkPipelinePruned(b *testing.B) {
	for i := 0; i < b.N; i++ {
		out := map[string]bool{}
		_ = out
		sc := &Scenario{Name: "pipe", Bound: 1, Horizon: 5000, Prune: true, Full: true,
			Body: func(x *X) {
				a := make(chan int)
				bb := make(chan int, 1)
				Go("src1", func() { Send(a, 1); Send(a, 2) })
				Go("src2", func() { Send(a, 10); Send(a, 20) })
				Go("mid", func() {
					for i := 0; i < 4; i++ {
						Send(bb, Recv(a)+100)
					}
					Close(bb)
				})
				for {
					_, ok := Recv2(bb)
					if !ok {
						break
					}
				}
			},
			Check: func(x *X) *Failure { return nil }}
		st, _ := Explore(sc)
		b.ReportMetric(float64(st.Executions), "execs")
		b.ReportMetric(float64(st.Steps), "steps")
	}
}
