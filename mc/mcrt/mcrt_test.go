package mcrt

import (
	"fmt"
	"sort"
	"strings"
	"testing"
)

// outcomes explores a tiny program exhaustively and returns the set of results.
func outcomes(t *testing.T, bound int, body func(rec func(string))) (map[string]bool, *Stats) {
	t.Helper()
	out := map[string]bool{}
	sc := &Scenario{Name: t.Name(), Bound: bound, Horizon: 1000,
		Body: func(x *X) {
			var log []string
			x.Data = &log
			body(func(s string) { log = append(log, s) })
		},
		Check: func(x *X) *Failure {
			log := *(x.Data.(*[]string))
			k := strings.Join(log, ",") + "|" + x.End
			for _, p := range x.Panics {
				k += "|panic:" + p.Value
			}
			out[k] = true
			return nil
		}}
	st, f := Explore(sc)
	if f != nil {
		t.Fatalf("unexpected failure %v", f)
	}
	return out, st
}

func keys(m map[string]bool) []string {
	var k []string
	for s := range m {
		k = append(k, s)
	}
	sort.Strings(k)
	return k
}

func TestRendezvous(t *testing.T) {
	o, st := outcomes(t, 8, func(rec func(string)) {
		ch := make(chan int)
		Go("p", func() { Send(ch, 1); Send(ch, 2); Close(ch) })
		for {
			v, ok := Recv2(ch)
			if !ok {
				break
			}
			rec(fmt.Sprint(v))
		}
	})
	if len(o) != 1 || !o["1,2|"+EndAllDone] {
		t.Fatalf("got %v", keys(o))
	}
	if !st.Unbounded {
		t.Fatalf("expected exhaustive exploration, stats %+v", st)
	}
}

func TestTwoProducersAllOrders(t *testing.T) {
	o, _ := outcomes(t, 8, func(rec func(string)) {
		ch := make(chan int, 1)
		Go("a", func() { Send(ch, 1) })
		Go("b", func() { Send(ch, 2) })
		rec(fmt.Sprint(Recv(ch)))
		rec(fmt.Sprint(Recv(ch)))
	})
	if !o["1,2|"+EndAllDone] || !o["2,1|"+EndAllDone] || len(o) != 2 {
		t.Fatalf("got %v", keys(o))
	}
}

func TestDoubleCloseAndSendOnClosed(t *testing.T) {
	o, _ := outcomes(t, 4, func(rec func(string)) {
		ch := make(chan int, 1)
		Close(ch)
		Close(ch)
	})
	if len(o) != 1 || !strings.Contains(keys(o)[0], "close of closed channel") {
		t.Fatalf("got %v", keys(o))
	}
	o, _ = outcomes(t, 4, func(rec func(string)) {
		ch := make(chan int, 1)
		Close(ch)
		Send(ch, 1)
	})
	if len(o) != 1 || !strings.Contains(keys(o)[0], "send on closed channel") {
		t.Fatalf("got %v", keys(o))
	}
}

func TestDeadlockIsQuiescent(t *testing.T) {
	o, _ := outcomes(t, 4, func(rec func(string)) {
		ch := make(chan int)
		Send(ch, 1)
	})
	if len(o) != 1 || !o["|"+EndQuiescent] {
		t.Fatalf("got %v", keys(o))
	}
}

func TestLostUpdateNeedsOnePreemption(t *testing.T) {
	run := func(bound int) map[string]bool {
		o, _ := outcomes(t, bound, func(rec func(string)) {
			x := 0
			done := make(chan bool, 2)
			inc := func() { Yield("r"); v := x; Yield("w"); x = v + 1; Send(done, true) }
			Go("a", inc)
			Go("b", inc)
			Recv(done)
			Recv(done)
			rec(fmt.Sprint(x))
		})
		return o
	}
	if o := run(0); len(o) != 1 || !o["2|"+EndAllDone] {
		t.Fatalf("bound 0: %v", keys(o))
	}
	if o := run(1); !o["1|"+EndAllDone] || !o["2|"+EndAllDone] {
		t.Fatalf("bound 1: %v", keys(o))
	}
}

func TestMutexExcludes(t *testing.T) {
	o, _ := outcomes(t, 6, func(rec func(string)) {
		x := 0
		key := new(int)
		done := make(chan bool, 2)
		inc := func() {
			MuLock(key)
			Yield("r")
			v := x
			Yield("w")
			x = v + 1
			MuUnlock(key)
			Send(done, true)
		}
		Go("a", inc)
		Go("b", inc)
		Recv(done)
		Recv(done)
		rec(fmt.Sprint(x))
	})
	if len(o) != 1 || !o["2|"+EndAllDone] {
		t.Fatalf("got %v", keys(o))
	}
}

func TestEnvChoice(t *testing.T) {
	o, _ := outcomes(t, 2, func(rec func(string)) {
		rec(fmt.Sprint(Choose(3, "a"), ChooseFree(2, "b")))
	})
	if len(o) != 6 {
		t.Fatalf("got %v", keys(o))
	}
	o, _ = outcomes(t, 0, func(rec func(string)) {
		rec(fmt.Sprint(Choose(3, "a"), ChooseFree(2, "b")))
	})
	if len(o) != 2 {
		t.Fatalf("bound 0 got %v", keys(o))
	}
}

func TestViolationReplayAndMinimal(t *testing.T) {
	sc := &Scenario{Name: "lost", Bound: 3, Horizon: 1000,
		Body: func(x *X) {
			v := 0
			x.Data = &v
			done := make(chan bool, 2)
			inc := func() { Yield("r"); a := v; Yield("w"); v = a + 1; Send(done, true) }
			Go("a", inc)
			Go("b", inc)
			Recv(done)
			Recv(done)
		},
		Check: func(x *X) *Failure {
			if x.End == EndAllDone && *(x.Data.(*int)) != 2 {
				return &Failure{Kind: "lost-update"}
			}
			return nil
		}}
	st, f := Explore(sc)
	if f == nil || f.Kind != "lost-update" || st.BoundCompleted != 0 {
		t.Fatalf("want failure at bound 1, got %v stats %+v", f, st)
	}
	if len(f.Trace) == 0 {
		t.Fatal("no trace")
	}
}

// pipeline is a 4-thread program with many equivalent interleavings.
func pipelineOutcomes(t *testing.T, prune bool) (map[string]bool, *Stats) {
	out := map[string]bool{}
	sc := &Scenario{Name: "pipe", Bound: 50, Horizon: 5000, Prune: prune,
		Body: func(x *X) {
			var log []string
			x.Data = &log
			a := make(chan int)
			b := make(chan int, 1)
			c := make(chan int, 2)
			Go("src1", func() { Send(a, 1); Send(a, 2) })
			var _ = 0
			Go("src2", func() { Send(a, 10) })
			Go("mid", func() {
				for i := 0; i < 3; i++ {
					Send(b, Recv(a)+100)
				}
				Close(b)
			})
			_ = c
			for {
				v, ok := Recv2(b)
				if !ok {
					break
				}
				log = append(log, fmt.Sprint(v))
			}
		},
		Check: func(x *X) *Failure {
			out[strings.Join(*(x.Data.(*[]string)), ",")+"|"+x.End] = true
			return nil
		}}
	st, f := Explore(sc)
	if f != nil {
		t.Fatal(f)
	}
	return out, st
}

func TestPruningPreservesOutcomes(t *testing.T) {
	full, st1 := pipelineOutcomes(t, false)
	pr, st2 := pipelineOutcomes(t, true)
	if !st1.Unbounded || !st2.Unbounded {
		t.Fatalf("not exhaustive: %+v %+v", st1, st2)
	}
	if fmt.Sprint(keys(full)) != fmt.Sprint(keys(pr)) {
		t.Fatalf("outcome sets differ:\n full=%v\n pruned=%v", keys(full), keys(pr))
	}
	if len(full) != 3 {
		t.Logf("%v", keys(full))
		t.Fatalf("expected the 3 merges of (1,2) and (10), got %v", keys(full))
	}
	t.Logf("unpruned executions=%d pruned-search executions=%d (cut %d) states=%d", st1.Executions, st2.Executions, st2.Pruned, st2.States)
	if st2.Executions >= st1.Executions {
		t.Fatalf("pruning did not reduce work: %d vs %d", st2.Executions, st1.Executions)
	}
}

// A receive from a full buffered channel lets the longest-waiting sender's
// value into the freed slot in the same step, as the runtime does: len(ch)
// observed right after the receive is still cap(ch) when a sender was ahead,
// and the values keep their order.
func TestRecvFromFullBufferAdmitsBlockedSender(t *testing.T) {
	o, _ := outcomes(t, 8, func(rec func(string)) {
		ch := make(chan int, 2)
		Go("p", func() { Send(ch, 1); Send(ch, 2); Send(ch, 3); Send(ch, 4) })
		v := Recv(ch)
		rec(fmt.Sprintf("%d/len=%d", v, Len(ch)))
		rec(fmt.Sprint(Recv(ch), Recv(ch), Recv(ch)))
	})
	sawFull := false
	for k := range o {
		if !strings.Contains(k, "2 3 4|"+EndAllDone) {
			t.Fatalf("order lost: %v", keys(o))
		}
		if strings.HasPrefix(k, "1/len=2,") {
			sawFull = true
		}
	}
	if !sawFull {
		t.Fatalf("no execution in which the blocked sender refilled the buffer at the receive: %v", keys(o))
	}
}
