// Package hsink provides harness-owned writers and readers for the
// application harnesses: every Write and Read is a scheduling point, so "a slow
// writer" is simply a writer thread that the explorer does not schedule.
package hsink

import (
	"errors"
	"io"
	"runtime"
	"strings"
	"sync"

	"verif/mc/mcrt"
)

var errNoSpace = errors.New("write: no space left on device")

// Sink records what is written to it.
type Sink struct {
	Name   string
	Buf    []byte
	Writes int
	// Split makes every Write of more than one byte happen in two steps with a
	// scheduling point in between (a writer that blocks inside the call).
	Split bool
	// Gate, when non-nil, stalls the first Write until the gate is closed (a
	// writer that blocks inside the call while input keeps flowing).  The bytes
	// are taken only after the stall, as a real device does.
	Gate   chan struct{}
	passed bool
	// Fail makes every Write return an error (disk full) without storing anything.
	Fail bool
	// MayFail lets the explorer make any single Write fail (one deviation per
	// failure); Failed counts them.
	MayFail bool
	Failed  int
	// NoYield: writes are not scheduling points.  Needed for sinks written
	// through log/slog, whose handler holds its own (real) mutex during Write:
	// parking there would block other threads outside the scheduler.
	NoYield bool
	mu      sync.Mutex // only for free-running (uninstrumented) conformance runs
}

func (s *Sink) Write(p []byte) (int, error) {
	if s.Fail {
		if !underSlog() {
			mcrt.Yield("failing-write:" + s.Name)
		}
		s.Writes++
		return 0, errNoSpace
	}
	if !mcrt.Active() {
		s.mu.Lock()
		defer s.mu.Unlock()
		s.Buf = append(s.Buf, p...)
		s.Writes++
		return len(p), nil
	}
	if s.MayFail && mcrt.Choose(2, "write-error:"+s.Name) == 1 {
		s.Failed++
		return 0, errNoSpace
	}
	if s.Gate != nil && !s.passed {
		mcrt.Recv2(s.Gate)
		s.passed = true
	}
	noYield := s.NoYield || underSlog()
	if !noYield {
		mcrt.Yield("write:" + s.Name)
	}
	if s.Split && len(p) > 1 && !noYield {
		h := len(p) / 2
		s.Buf = append(s.Buf, p[:h]...)
		mcrt.Yield("write-second-half:" + s.Name)
		s.Buf = append(s.Buf, p[h:]...)
	} else {
		s.Buf = append(s.Buf, p...)
	}
	s.Writes++
	return len(p), nil
}

// Len is the number of bytes written so far.
func (s *Sink) Len() int { return len(s.Buf) }

// Sinks is a factory for named sinks (the dailylogger replacement).
type Sinks struct {
	ByLeader map[string]*Sink
	byPath   map[string]*Sink
	Split    bool
	Fail     bool
	// MayFailTrailer: sinks whose file name ends like this may fail single writes.
	MayFailTrailer string
}

// New is installed as mcrt.NewDailySink.
func (f *Sinks) New(dir, leader, trailer string) io.Writer {
	if f.ByLeader == nil {
		f.ByLeader = map[string]*Sink{}
	}
	// two writers made for the same directory and name write to the same file
	// (the daily writer opens it for appending): they share one sink
	path := dir + "/" + leader + trailer
	if f.byPath == nil {
		f.byPath = map[string]*Sink{}
	}
	if s, ok := f.byPath[path]; ok {
		return s
	}
	s := &Sink{Name: leader + trailer, Split: f.Split, Fail: f.Fail}
	if f.MayFailTrailer != "" && trailer == f.MayFailTrailer {
		s.MayFail = true
	}
	if trailer == ".log" {
		// event logs are written through log/slog
		s.NoYield, s.Fail = true, false
	}
	f.byPath[path] = s
	f.ByLeader[leader+trailer] = s
	return s
}

// underSlog reports whether the current call comes from inside log/slog, whose
// handler holds its own (real) mutex while it writes: yielding there would park
// the thread with a lock the scheduler cannot see.
func underSlog() bool {
	var pcs [24]uintptr
	n := runtime.Callers(3, pcs[:])
	frames := runtime.CallersFrames(pcs[:n])
	for {
		fr, more := frames.Next()
		if strings.HasPrefix(fr.Function, "log/slog.") {
			return true
		}
		if !more {
			return false
		}
	}
}

// Get returns the sink created for leader+trailer, or an empty one.
func (f *Sinks) Get(name string) *Sink {
	if s, ok := f.ByLeader[name]; ok {
		return s
	}
	return &Sink{Name: name}
}

// ChunkReader hands its data over in chunks chosen by the explorer:
// everything, one byte or two bytes per Read (non-default sizes are deviations).
type ChunkReader struct {
	Data  []byte
	Pos   int
	Reads int
	// Sizes are the alternative chunk sizes (0 = everything that fits).
	Sizes []int
	// Reset tells the reader that the calling thread keeps no state but the
	// position between reads (see mcrt.ResetLocal).
	Reset bool
	// EOFWithData lets the explorer hand over the final bytes together with io.EOF.
	EOFWithData bool
	// FinalErr, when set, ends the input instead of io.EOF (a device that is
	// unplugged, a connection that is reset).
	FinalErr error
	// PauseAt[pos] = n: when the read position is pos the source first reports
	// io.EOF n times (a file that is still being written, a quiet line) and
	// then carries on.
	PauseAt map[int]int
}

func (r *ChunkReader) end() error {
	if r.FinalErr != nil {
		return r.FinalErr
	}
	return io.EOF
}

func (r *ChunkReader) Read(p []byte) (int, error) {
	r.Reads++
	if r.Reset {
		mcrt.ResetLocal(uint64(r.Pos) + 1)
	}
	if n := r.PauseAt[r.Pos]; n > 0 {
		r.PauseAt[r.Pos] = n - 1
		return 0, io.EOF
	}
	if r.Pos >= len(r.Data) {
		return 0, r.end()
	}
	left := len(r.Data) - r.Pos
	n := left
	sizes := r.Sizes
	if sizes == nil {
		sizes = []int{0, 1, 2}
	}
	if left > 1 && len(sizes) > 1 {
		if c := mcrt.Choose(len(sizes), "chunk"); sizes[c] > 0 && sizes[c] < n {
			n = sizes[c]
		}
	} else if len(sizes) == 1 && sizes[0] > 0 && sizes[0] < n {
		n = sizes[0] // fixed chunk size
	}
	if n > len(p) {
		n = len(p)
	}
	copy(p, r.Data[r.Pos:r.Pos+n])
	r.Pos += n
	// io.Reader allows the last data and io.EOF to come from the same call
	// (HTTP bodies, decompressors, pipes do it); that answer is one deviation
	if r.Pos == len(r.Data) && r.EOFWithData && mcrt.Choose(2, "eof-with-last-data") == 1 {
		return n, r.end()
	}
	return n, nil
}
