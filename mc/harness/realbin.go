package harness

import (
	"bytes"
	"fmt"
	"os"
	"os/exec"
	"path/filepath"
	"strings"
	"sync"
	"time"

	"verif/internal/ev"
)

// RealCase is one end-to-end run of an application's real binary: real main(),
// real files and pipes, the operating system's schedule.  It is the conformance
// leg of the application checks: the scheduler-driven harnesses call the entry
// point beneath main(), this runs what is shipped.  The garbage collector is
// made as eager as it can be (GOGC=1) so that anything a collection or a
// finalizer can do happens early in a run rather than after megabytes.
type RealCase struct {
	Name string
	// Args of the program; "%DIR%" is replaced by a fresh scratch directory.
	Args []string
	// Files are created under the scratch directory before the run ("%DIR%" in
	// the content is replaced too).
	Files map[string]string
	Stdin []byte
	// Env is added to the environment (e.g. "TZ=Pacific/Auckland").
	Env []string
	// Block > 0 feeds stdin in blocks of that size, and after each block waits
	// until the program's stdout has reached Progress(bytes fed so far).
	Block    int
	Progress func(fed int) int
	// Check judges the run: "" or a violation kind and detail.
	Check func(stdout []byte, dir string, exit error) (kind, detail string)
}

// EvViolation lets harnesses outside this module tree name the type.
type EvViolation = ev.Violation

const realStall = 40 * time.Second

func runReal(bin string, c *RealCase) (kind, detail string) {
	dir, err := os.MkdirTemp("", "realbin")
	if err != nil {
		return "", "" // cannot judge
	}
	defer os.RemoveAll(dir)
	for name, content := range c.Files {
		p := filepath.Join(dir, name)
		os.MkdirAll(filepath.Dir(p), 0o755)
		os.WriteFile(p, []byte(strings.ReplaceAll(content, "%DIR%", dir)), 0o644)
	}
	var args []string
	for _, a := range c.Args {
		args = append(args, strings.ReplaceAll(a, "%DIR%", dir))
	}
	cmd := exec.Command(bin, args...)
	cmd.Dir = dir
	cmd.Env = append(append(os.Environ(), "GOGC=1"), c.Env...)
	cmd.Stderr = nil
	in, err := cmd.StdinPipe()
	if err != nil {
		return "", ""
	}
	outPipe, err := cmd.StdoutPipe()
	if err != nil {
		return "", ""
	}
	if err := cmd.Start(); err != nil {
		return "", ""
	}
	var mu sync.Mutex
	cond := sync.NewCond(&mu)
	var out bytes.Buffer
	eof := false
	go func() {
		buf := make([]byte, 65536)
		for {
			n, err := outPipe.Read(buf)
			mu.Lock()
			out.Write(buf[:n])
			if err != nil {
				eof = true
			}
			cond.Broadcast()
			mu.Unlock()
			if err != nil {
				return
			}
		}
	}()
	stalled := false
	timer := time.AfterFunc(realStall, func() {
		mu.Lock()
		stalled = true
		cond.Broadcast()
		mu.Unlock()
		cmd.Process.Kill()
	})
	defer timer.Stop()
	block := c.Block
	if block <= 0 {
		block = len(c.Stdin) + 1
	}
	for fed := 0; fed < len(c.Stdin); {
		n := block
		if fed+n > len(c.Stdin) {
			n = len(c.Stdin) - fed
		}
		if _, err := in.Write(c.Stdin[fed : fed+n]); err != nil {
			break // the program stopped reading; the final comparison decides
		}
		fed += n
		if c.Progress != nil {
			want := c.Progress(fed)
			mu.Lock()
			for out.Len() < want && !eof && !stalled {
				cond.Wait()
			}
			mu.Unlock()
		}
	}
	in.Close()
	mu.Lock()
	for !eof && !stalled {
		cond.Wait()
	}
	mu.Unlock()
	exit := cmd.Wait()
	if stalled {
		mu.Lock()
		n := out.Len()
		mu.Unlock()
		return "program-stalled", fmt.Sprintf("no progress for %v; %d bytes of output so far", realStall, n)
	}
	return c.Check(out.Bytes(), dir, exit)
}

// RealBinary runs the cases against the binary whose path is in the
// environment variable binEnv (set by ./check).  A case that fails is run
// twice more and reported only if it fails every time.
func RealBinary(r *ev.Run, id, binEnv string, cases []RealCase) {
	bin := os.Getenv(binEnv)
	if bin == "" {
		r.Extra["real_binary_pass"] = "not run (" + binEnv + " not set)"
		return
	}
	if r.NViolations() > 0 {
		// the exhaustive part has already decided; the conformance leg adds nothing
		r.Extra["real_binary_pass"] = "skipped: a violation was already found by the exploration"
		return
	}
	ran := 0
	for i := range cases {
		c := &cases[i]
		kind, detail := runReal(bin, c)
		ran++
		r.Count(1, 0, 1, 1)
		if kind == "" {
			continue
		}
		again := 0
		for k := 0; k < 2; k++ {
			if k2, _ := runReal(bin, c); k2 != "" {
				again++
			}
		}
		if again < 2 {
			r.Cap(fmt.Sprintf("real-binary case %q failed %d of 3 runs (%s); not reported", c.Name, again+1, kind))
			continue
		}
		r.Violate(ev.Violation{Fingerprint: id + " real-binary " + kind, What: "end-to-end run of the real binary, case " + c.Name + ": " + kind + ": " + detail,
			Case: map[string]interface{}{"case": c.Name, "args": c.Args, "stdin_bytes": len(c.Stdin), "block": c.Block}, ReplayKind: "real-binary"})
		break // one confirmed failure is enough (a program that stalls would cost a time-out per case)
	}
	r.Extra["real_binary_pass"] = fmt.Sprintf("%d end-to-end runs of the shipped main() (GOGC=1, OS schedule) - conformance leg, not part of the exhaustive claim", ran)
}
