// Package harness is the worker/coordinator frame shared by all engine-A
// checks: it shards a property's scenarios over worker processes (one
// scheduler per process), merges their coverage, and reports through ev.
package harness

import (
	"encoding/json"
	"fmt"
	"io"
	"os"
	"os/exec"
	"runtime"
	"sort"
	"strconv"
	"strings"
	"sync"
	"time"

	"verif/internal/ev"
	"verif/mc/mcrt"
)

// Prop describes one property's engine-A check.
// EvRun lets harnesses outside this module tree name the evidence type.
type EvRun = ev.Run

type Prop struct {
	ID          string
	Rule        string
	Assumptions []string
	// Scenarios builds the scenario list for a tier (same list in every process).
	Scenarios func(tier string) []*mcrt.Scenario
	// Pre runs in the coordinator before the exploration (in-process dimension).
	Pre func(r *ev.Run)
	// Post runs in the coordinator after the exploration (conformance runs etc.).
	Post func(r *ev.Run)
	// Budget is the wall-clock budget per tier for the whole exploration.
	QuickBudget, ThoroughBudget time.Duration
}

type violation struct {
	Scenario string      `json:"scenario"`
	Kind     string      `json:"kind"`
	Detail   string      `json:"detail"`
	Choices  []int       `json:"choices"`
	Trace    []string    `json:"trace"`
	Data     interface{} `json:"data,omitempty"`
}

type partial struct {
	Scenarios   int              `json:"scenarios"`
	Executions  int64            `json:"executions"`
	Points      int64            `json:"points"`
	Steps       int64            `json:"steps"`
	TraceClass  int64            `json:"trace_classes"`
	MaxThreads  int              `json:"max_threads"`
	Unbounded   int              `json:"unbounded_scenarios"`
	DefaultOnly int              `json:"default_schedule_only_scenarios"`
	MinBound    int              `json:"min_bound_completed"`
	Capped      []string         `json:"capped"`
	Ends        map[string]int64 `json:"ends"`
	Outcomes    map[string]int64 `json:"outcomes"`
	Violations  []violation      `json:"violations"`
	Samples     []interface{}    `json:"samples"`
	Failure     string           `json:"machinery_failure,omitempty"`
	Failures    []string         `json:"machinery_failures,omitempty"`
	PerScenario []string         `json:"per_scenario,omitempty"`
}

// Cleanup runs before the process exits (temp directories of a harness).
var Cleanup = func() {}

// ResultWriter is where a worker writes its partial result (the harnesses of
// chatty programs point os.Stdout elsewhere and keep the real one here).
var ResultWriter io.Writer = os.Stdout

// Outcome lets scenario checks tally observable outcome classes.
var (
	outMu    sync.Mutex
	outcomes = map[string]int64{}
)

// Outcome records an observable outcome class for the vacuity guard.
func Outcome(class string) {
	outMu.Lock()
	outcomes[class]++
	outMu.Unlock()
}

func tier() string { return ev.Tier(os.Getenv("MC_TIER")) }

// Run is the entry point: coordinator unless MC_SHARD or MC_REPLAY is set.
func Run(p *Prop) {
	if f := os.Getenv("MC_REPLAY"); f != "" {
		rc := replay(p, f)
		Cleanup()
		os.Exit(rc)
	}
	if os.Getenv("MC_REAL_ONLY") != "" {
		// replay of a real-binary violation: only the end-to-end cases
		r := ev.NewRun(p.ID, tier())
		if p.Post != nil {
			p.Post(r)
		}
		Cleanup()
		if r.NViolations() > 0 {
			fmt.Printf("VIOLATION property=%s replay=%s\n", p.ID, os.Getenv("MC_REAL_ONLY"))
			os.Exit(1)
		}
		fmt.Println("not reproduced")
		os.Exit(0)
	}
	if os.Getenv("MC_LIST") != "" {
		fmt.Fprintln(ResultWriter, len(filter(p.Scenarios(tier()))))
		Cleanup()
		return
	}
	if sh := os.Getenv("MC_SHARD"); sh != "" {
		worker(p, sh)
		Cleanup()
		return
	}
	rc := coordinate(p)
	Cleanup()
	os.Exit(rc)
}

func worker(p *Prop, shard string) {
	budget, _ := strconv.ParseFloat(os.Getenv("MC_BUDGET_S"), 64)
	deadline := time.Now().Add(time.Duration(budget * float64(time.Second)))
	out := partial{MinBound: 1 << 30, Ends: map[string]int64{}, Outcomes: map[string]int64{}}
	defer func() {
		if x := recover(); x != nil {
			if mf, ok := x.(mcrt.MachineryFailure); ok {
				out.Failure = string(mf)
			} else {
				out.Failure = fmt.Sprint("worker panic: ", x)
			}
		}
		outMu.Lock()
		for c, v := range outcomes {
			out.Outcomes[c] += v
		}
		outMu.Unlock()
		json.NewEncoder(ResultWriter).Encode(&out)
	}()
	scs := filter(p.Scenarios(tier()))
	mine := []*mcrt.Scenario{}
	for _, f := range strings.Split(shard, ",") {
		if i, err := strconv.Atoi(f); err == nil && i >= 0 && i < len(scs) {
			mine = append(mine, scs[i])
		}
	}
	for i, sc := range mine {
		if budget > 0 {
			// share the remaining time evenly over the remaining scenarios
			left := time.Until(deadline)
			if left < 0 {
				left = 0
			}
			sc.Deadline = time.Now().Add(left / time.Duration(len(mine)-i))
		}
		st, f, mf := exploreGuarded(sc)
		if mf != "" {
			// the scheduler lost control of this scenario: not a verdict; the
			// other scenarios still run
			out.Failures = append(out.Failures, sc.Name+": "+mf)
			continue
		}
		out.Scenarios++
		out.Executions += st.Executions
		out.Points += st.Points
		out.Steps += st.Steps
		out.TraceClass += int64(len(st.TraceClasses))
		if st.MaxThreads > out.MaxThreads {
			out.MaxThreads = st.MaxThreads
		}
		for e, v := range st.Ends {
			out.Ends[e] += v
		}
		if sc.DefaultOnly {
			out.DefaultOnly++
		} else if st.Unbounded {
			out.Unbounded++
		} else if st.BoundCompleted < out.MinBound {
			out.MinBound = st.BoundCompleted
		}
		if st.Capped != "" {
			out.Capped = append(out.Capped, sc.Name+": "+st.Capped)
		}
		out.PerScenario = append(out.PerScenario, fmt.Sprintf("%s: executions=%d bound=%d unbounded=%v", sc.Name, st.Executions, st.BoundCompleted, st.Unbounded))
		if f != nil {
			out.Violations = append(out.Violations, violation{sc.Name, f.Kind, f.Detail, f.Choices, f.Trace, f.Data})
		}
		if len(out.Samples) < 2 {
			out.Samples = append(out.Samples, map[string]interface{}{"scenario": sc.Name, "executions": st.Executions, "bound_completed": st.BoundCompleted, "all_interleavings": st.Unbounded})
		}
	}
}

func coordinate(p *Prop) int {
	t := tier()
	r := ev.NewRun(p.ID, t)
	r.Rule = p.Rule
	r.Assumptions = p.Assumptions
	if p.Pre != nil {
		p.Pre(r)
	}
	// one or several harness binaries contribute scenarios to this property
	bins := []string{os.Args[0]}
	if b := os.Getenv("MC_BINS"); b != "" {
		bins = strings.Split(b, ",")
	}
	type item struct {
		bin string
		idx int
	}
	var scs []item
	for _, bin := range bins {
		cnt := 0
		if bin == os.Args[0] {
			cnt = len(filter(p.Scenarios(t)))
		} else {
			cmd := exec.Command(bin)
			cmd.Env = append(os.Environ(), "MC_LIST=1", "MC_TIER="+t)
			out, err := cmd.Output()
			if err != nil {
				fmt.Fprintf(os.Stderr, "MACHINERY FAILURE: cannot list scenarios of %s: %v\n", bin, err)
				return 2
			}
			fmt.Sscanf(strings.TrimSpace(string(out)), "%d", &cnt)
		}
		for i := 0; i < cnt; i++ {
			scs = append(scs, item{bin, i})
		}
	}
	n := runtime.NumCPU()
	if w, err := strconv.Atoi(os.Getenv("MC_WORKERS")); err == nil && w > 0 {
		n = w
	}
	if n > len(scs) {
		n = len(scs)
	}
	budget := p.QuickBudget
	if t == "thorough" {
		budget = p.ThoroughBudget
	}
	if b, err := strconv.ParseFloat(os.Getenv("MC_BUDGET_S"), 64); err == nil && b > 0 {
		budget = time.Duration(b * float64(time.Second))
	}
	// dynamic work distribution: batches of consecutive scenario indices are
	// handed to n worker slots; each batch gets a fair share of the time left
	batch := len(scs) / (n * 8)
	if batch < 1 {
		batch = 1
	}
	var batches [][]int
	for i := 0; i < len(scs); i += batch {
		var b []int
		for j := i; j < i+batch && j < len(scs) && scs[j].bin == scs[i].bin; j++ {
			b = append(b, j)
		}
		batches = append(batches, b)
		i += len(b) - batch
	}
	parts := make([]partial, len(batches))
	errs := make([]string, len(batches))
	var qmu sync.Mutex
	nextBatch := 0
	doneScen := 0
	start := time.Now()
	var wg sync.WaitGroup
	for k := 0; k < n; k++ {
		wg.Add(1)
		go func() {
			defer wg.Done()
			for {
				qmu.Lock()
				if nextBatch >= len(batches) {
					qmu.Unlock()
					return
				}
				bi := nextBatch
				nextBatch++
				left := budget - time.Since(start)
				if left < time.Second {
					left = time.Second
				}
				remaining := len(scs) - doneScen
				doneScen += len(batches[bi])
				qmu.Unlock()
				share := left.Seconds() * float64(n) * float64(len(batches[bi])) / float64(remaining)
				if share > left.Seconds() {
					share = left.Seconds()
				}
				var idx []string
				for _, i := range batches[bi] {
					idx = append(idx, strconv.Itoa(scs[i].idx))
				}
				cmd := exec.Command(scs[batches[bi][0]].bin)
				cmd.Env = append(os.Environ(), "MC_SHARD="+strings.Join(idx, ","), "MC_TIER="+t,
					fmt.Sprintf("MC_BUDGET_S=%f", share), "GOMAXPROCS=1", "GOMEMLIMIT=6GiB")
				cmd.Stderr = os.Stderr
				b, err := cmd.Output()
				if err != nil {
					errs[bi] = fmt.Sprintf("worker for scenarios %s: %v", strings.Join(idx, ","), err)
				}
				// the partial result is the last JSON line of the output
				lines := strings.Split(strings.TrimSpace(string(b)), "\n")
				if len(lines) == 0 || json.Unmarshal([]byte(lines[len(lines)-1]), &parts[bi]) != nil {
					errs[bi] += fmt.Sprintf(" worker for scenarios %s: no result (output %q)", strings.Join(idx, ","), truncate(string(b), 300))
				} else if err != nil && parts[bi].Failure == "" {
					errs[bi] = ""
				}
			}
		}()
	}
	wg.Wait()
	machinery := []string{}
	for _, e := range errs {
		if strings.TrimSpace(e) != "" {
			machinery = append(machinery, e)
		}
	}
	total := partial{MinBound: 1 << 30, Ends: map[string]int64{}, Outcomes: map[string]int64{}}
	for _, q := range parts {
		total.Scenarios += q.Scenarios
		total.Executions += q.Executions
		total.Points += q.Points
		total.Steps += q.Steps
		total.TraceClass += q.TraceClass
		total.Unbounded += q.Unbounded
		total.DefaultOnly += q.DefaultOnly
		if q.MaxThreads > total.MaxThreads {
			total.MaxThreads = q.MaxThreads
		}
		if q.Scenarios > 0 && q.MinBound < total.MinBound {
			total.MinBound = q.MinBound
		}
		total.Capped = append(total.Capped, q.Capped...)
		for e, v := range q.Ends {
			total.Ends[e] += v
		}
		for e, v := range q.Outcomes {
			total.Outcomes[e] += v
		}
		total.Samples = append(total.Samples, q.Samples...)
		total.PerScenario = append(total.PerScenario, q.PerScenario...)
		if q.Failure != "" {
			machinery = append(machinery, q.Failure)
		}
		machinery = append(machinery, q.Failures...)
		for _, v := range q.Violations {
			r.Violate(ev.Violation{Fingerprint: p.ID + " " + v.Kind, What: v.Kind + ": " + v.Detail,
				Case:       map[string]interface{}{"scenario": v.Scenario, "choices": v.Choices, "trace": v.Trace, "data": v.Data},
				ReplayKind: "mc-schedule"})
		}
	}
	if len(machinery) > 0 {
		sort.Strings(machinery)
		if len(machinery) > 12 {
			machinery = append(machinery[:12], fmt.Sprintf("... and %d more", len(machinery)-12))
		}
		fmt.Fprintf(os.Stderr, "MACHINERY FAILURE (not a verdict) in %s:\n  %s\n", p.ID, strings.Join(machinery, "\n  "))
		if r.NViolations() == 0 {
			return 2
		}
		// a confirmed, replayable violation found in another scenario stands
		fmt.Fprintf(os.Stderr, "(violations found in other scenarios are reported below)\n")
		r.Cap("scenarios dropped because the scheduler lost control of them: " + strings.Join(machinery, "; "))
	}
	if total.MinBound == 1<<30 {
		total.MinBound = -1
	}
	r.Count(total.Executions, total.TraceClass, total.Steps, total.Executions)
	r.DistinctN += total.TraceClass
	for c, v := range total.Outcomes {
		for i := int64(0); i < v && i < 1; i++ {
			r.Outcome(c)
		}
	}
	for _, c := range total.Capped {
		r.Cap(c)
	}
	sort.Strings(total.PerScenario)
	r.Extra["mc_scenarios"] = total.Scenarios
	r.Extra["mc_schedules_executed"] = total.Executions
	r.Extra["mc_choice_points"] = total.Points
	r.Extra["mc_distinct_traces"] = total.TraceClass
	r.Extra["mc_max_threads"] = total.MaxThreads
	r.Extra["mc_scenarios_with_all_interleavings_explored"] = total.Unbounded
	r.Extra["mc_min_deviation_bound_completed_in_other_scenarios"] = total.MinBound
	r.Extra["mc_input_dimension_scenarios_run_under_default_schedule_only"] = total.DefaultOnly
	r.Extra["mc_end_states"] = total.Ends
	r.Extra["mc_outcome_counts"] = total.Outcomes
	if len(total.PerScenario) > 40 {
		total.PerScenario = total.PerScenario[:40]
	}
	r.Extra["mc_per_scenario_first40"] = total.PerScenario
	for i, s := range total.Samples {
		if i < 4 {
			r.Sample(s)
		}
	}
	if total.Unbounded+total.DefaultOnly < total.Scenarios {
		// bounded, not exhaustive, for the remaining scenarios
		r.Exhaustive = false
	}
	if p.Post != nil {
		p.Post(r)
	}
	auxRace(p, r)
	return r.Finish()
}

func truncate(s string, n int) string {
	if len(s) > n {
		return s[:n] + "..."
	}
	return s
}

func replay(p *Prop, path string) int {
	b, err := os.ReadFile(path)
	if err != nil {
		fmt.Fprintln(os.Stderr, err)
		return 2
	}
	var doc struct {
		Fingerprint string `json:"fingerprint"`
		Tier        string `json:"tier"`
		Case        struct {
			Scenario string `json:"scenario"`
			Choices  []int  `json:"choices"`
		} `json:"case"`
	}
	if err := json.Unmarshal(b, &doc); err != nil {
		fmt.Fprintln(os.Stderr, err)
		return 2
	}
	for _, t := range []string{doc.Tier, "quick", "thorough"} {
		for _, sc := range p.Scenarios(ev.Tier(t)) {
			if sc.Name != doc.Case.Scenario {
				continue
			}
			x, f := mcrt.ReplayOnce(sc, doc.Case.Choices)
			fmt.Printf("replayed %s with %d choices: end=%s steps=%d\n", sc.Name, len(doc.Case.Choices), x.End, x.Steps)
			for _, l := range x.Trace {
				fmt.Println("  ", l)
			}
			if f != nil {
				fmt.Printf("  %s: %s\nVIOLATION property=%s replay=%s\n", f.Kind, f.Detail, p.ID, path)
				return 1
			}
			fmt.Println("not reproduced")
			return 0
		}
	}
	fmt.Fprintf(os.Stderr, "scenario %q not found\n", doc.Case.Scenario)
	return 2
}

// filter keeps the scenarios whose name contains $MC_ONLY (debugging aid).
func filter(scs []*mcrt.Scenario) []*mcrt.Scenario {
	only := os.Getenv("MC_ONLY")
	if only == "" {
		return scs
	}
	var out []*mcrt.Scenario
	for _, sc := range scs {
		if strings.Contains(sc.Name, only) {
			out = append(out, sc)
		}
	}
	return out
}

// auxRace runs the auxiliary, non-deciding race-detector pass when the check
// script has built it (MC_AUXRACE_BIN): uninstrumented packages, real
// goroutines, -race.  A report is a true violation (the detector has no false
// positives); silence is recorded as sampled evidence only.
func auxRace(p *Prop, r *ev.Run) {
	bin := os.Getenv("MC_AUXRACE_BIN")
	if bin == "" {
		return
	}
	cmd := exec.Command(bin, p.ID)
	cmd.Env = append(os.Environ(), "GORACE=halt_on_error=1 exitcode=66")
	out, err := cmd.CombinedOutput()
	code := 0
	if ee, ok := err.(*exec.ExitError); ok {
		code = ee.ExitCode()
	} else if err != nil {
		r.Extra["auxiliary_race_pass"] = "could not run: " + err.Error()
		return
	}
	text := string(out)
	switch {
	case code == 66 || strings.Contains(text, "WARNING: DATA RACE"):
		site := ""
		for _, l := range strings.Split(text, "\n") {
			if strings.Contains(l, "github.com/goblimey/go-ntrip/") && site == "" {
				site = strings.TrimSpace(l)
				if i := strings.Index(site, "("); i > 0 {
					site = site[:i]
				}
				site = strings.TrimPrefix(site, "github.com/goblimey/go-ntrip/")
			}
		}
		r.Violate(ev.Violation{Fingerprint: p.ID + " data-race reported by the race detector at " + site, What: "auxiliary free-running -race pass: DATA RACE",
			Case: map[string]interface{}{"report": truncate(text, 3000)}, ReplayKind: "auxrace"})
		r.Extra["auxiliary_race_pass"] = "DATA RACE reported"
	case code != 0:
		r.Violate(ev.Violation{Fingerprint: p.ID + " free-running pipeline delivered wrong data (auxiliary pass)", What: truncate(text, 500), Case: map[string]interface{}{"output": truncate(text, 3000)}, ReplayKind: "auxrace"})
	default:
		r.Extra["auxiliary_race_pass"] = "auxiliary, sampled, NOT part of the coverage claim: " + strings.TrimSpace(text)
	}
}

// exploreGuarded runs one scenario and turns a loss of control into a string.
func exploreGuarded(sc *mcrt.Scenario) (st *mcrt.Stats, f *mcrt.Failure, failure string) {
	defer func() {
		if x := recover(); x != nil {
			if mf, ok := x.(mcrt.MachineryFailure); ok {
				failure = string(mf)
				return
			}
			panic(x)
		}
	}()
	st, f = mcrt.Explore(sc)
	return
}
