package ref

import (
	"testing"
	"time"
)

func TestWeekStarts(t *testing.T) {
	// Sunday 2023-05-14 00:00:00 UTC is the nominal week boundary.
	sun := time.Date(2023, 5, 14, 0, 0, 0, 0, time.UTC)
	if ws := GPS.WeekStart(sun); !ws.Equal(sun.Add(-18 * time.Second)) {
		t.Fatal(ws)
	}
	if ws := GPS.WeekStart(sun.Add(-19 * time.Second)); !ws.Equal(sun.Add(-18*time.Second - 7*24*time.Hour)) {
		t.Fatal(ws)
	}
	if ws := Beidou.WeekStart(sun.Add(-4 * time.Second)); !ws.Equal(sun.Add(-4 * time.Second)) {
		t.Fatal(ws)
	}
	if ws := Glonass.WeekStart(sun); !ws.Equal(sun.Add(-3 * time.Hour)) {
		t.Fatal(ws)
	}
	// Monday 01:00 UTC = Monday 04:00 Moscow = day 1, 4 h
	mon := time.Date(2023, 5, 15, 1, 0, 0, 0, time.UTC)
	if ts := Glonass.Timestamp(mon); ts != 1<<27|4*3600*1000 {
		t.Fatal(ts)
	}
	if ts := GPS.Timestamp(sun); ts != 18000 {
		t.Fatal(ts)
	}
	if ts := GPS.Timestamp(sun.Add(-18*time.Second - time.Millisecond)); ts != 604799999 {
		t.Fatal(ts)
	}
}
