package ref

import "math/bits"

// MSMHeader is the input of the reference MSM encoder.
type MSMHeader struct {
	Type      int
	Station   uint
	Timestamp uint
	Multiple  bool
	IODS      uint // 3 bits
	SessTime  uint // 7 bits
	ClkSteer  uint // 2 bits
	ExtClk    uint // 2 bits
	DivFree   bool
	Smoothing uint // 3 bits
	SatMask   uint64
	SigMask   uint32
	// CellMask has NSat*NSig entries, satellite-major.
	CellMask []bool
}

// NSat is the number of satellites in the mask.
func (h *MSMHeader) NSat() int { return bits.OnesCount64(h.SatMask) }

// NSig is the number of signal types in the mask.
func (h *MSMHeader) NSig() int { return bits.OnesCount32(h.SigMask) }

// NCell is the number of signal cells the cell mask announces.
func (h *MSMHeader) NCell() int {
	n := 0
	for _, c := range h.CellMask {
		if c {
			n++
		}
	}
	return n
}

// SatIDs lists the satellite ids (1..64) in the mask, ascending.
func (h *MSMHeader) SatIDs() []uint {
	var ids []uint
	for i := 1; i <= 64; i++ {
		if h.SatMask>>(64-uint(i))&1 == 1 {
			ids = append(ids, uint(i))
		}
	}
	return ids
}

// SigIDs lists the signal ids (1..32) in the mask, ascending.
func (h *MSMHeader) SigIDs() []uint {
	var ids []uint
	for i := 1; i <= 32; i++ {
		if h.SigMask>>(32-uint(i))&1 == 1 {
			ids = append(ids, uint(i))
		}
	}
	return ids
}

// MSMSat is one satellite cell (Ext and Rate only used by MSM7).
type MSMSat struct {
	Whole uint  // 8 bits
	Ext   uint  // 4 bits (MSM7)
	Frac  uint  // 10 bits
	Rate  int64 // 14 bits signed (MSM7)
}

// MSMSig is one signal cell (RateDelta only used by MSM7).
type MSMSig struct {
	RangeDelta int64 // 15 / 20 bits signed
	PhaseDelta int64 // 22 / 24 bits signed
	Lock       uint  // 4 / 10 bits
	Half       bool
	CNR        uint  // 6 / 10 bits
	RateDelta  int64 // 15 bits signed (MSM7)
}

// IsMSM7 says whether the type is one of the seven MSM7 types.
func IsMSM7(t int) bool { return t >= 1077 && t <= 1137 && t%10 == 7 }

// IsMSM4 says whether the type is one of the seven MSM4 types.
func IsMSM4(t int) bool { return t >= 1074 && t <= 1134 && t%10 == 4 }

// MSMHeaderBits writes the MSM header.
func MSMHeaderBits(w *BitWriter, h *MSMHeader) {
	w.PutU(uint64(h.Type), 12)
	w.PutU(uint64(h.Station), 12)
	w.PutU(uint64(h.Timestamp), 30)
	w.PutBool(h.Multiple)
	w.PutU(uint64(h.IODS), 3)
	w.PutU(uint64(h.SessTime), 7)
	w.PutU(uint64(h.ClkSteer), 2)
	w.PutU(uint64(h.ExtClk), 2)
	w.PutBool(h.DivFree)
	w.PutU(uint64(h.Smoothing), 3)
	w.PutU(h.SatMask, 64)
	w.PutU(uint64(h.SigMask), 32)
	for _, c := range h.CellMask {
		w.PutBool(c)
	}
}

// EncodeMSM builds the payload of an MSM4 or MSM7 message (chosen by h.Type):
// header, field-major satellite data, field-major signal data, zero bits to the
// next byte boundary and then pad further zero bytes.  It returns the payload
// and the number of meaningful bits.
func EncodeMSM(h *MSMHeader, sats []MSMSat, sigs []MSMSig, pad int) ([]byte, int) {
	w := &BitWriter{}
	MSMHeaderBits(w, h)
	m7 := IsMSM7(h.Type)
	for _, s := range sats {
		w.PutU(uint64(s.Whole), 8)
	}
	if m7 {
		for _, s := range sats {
			w.PutU(uint64(s.Ext), 4)
		}
	}
	for _, s := range sats {
		w.PutU(uint64(s.Frac), 10)
	}
	if m7 {
		for _, s := range sats {
			w.PutS(s.Rate, 14)
		}
	}
	rd, pd, lk, cn := 15, 22, 4, 6
	if m7 {
		rd, pd, lk, cn = 20, 24, 10, 10
	}
	for _, s := range sigs {
		w.PutS(s.RangeDelta, rd)
	}
	for _, s := range sigs {
		w.PutS(s.PhaseDelta, pd)
	}
	for _, s := range sigs {
		w.PutU(uint64(s.Lock), lk)
	}
	for _, s := range sigs {
		w.PutBool(s.Half)
	}
	for _, s := range sigs {
		w.PutU(uint64(s.CNR), cn)
	}
	if m7 {
		for _, s := range sigs {
			w.PutS(s.RateDelta, 15)
		}
	}
	n := w.Len()
	p := w.Bytes()
	p = append(p, make([]byte, pad)...)
	return p, n
}

// MSMFrame is Frame(EncodeMSM(...)).
func MSMFrame(h *MSMHeader, sats []MSMSat, sigs []MSMSig, pad int) []byte {
	p, _ := EncodeMSM(h, sats, sigs, pad)
	return Frame(p)
}

// HeaderOnlyMSM builds a CRC-valid frame of the given type whose payload is
// a 22-byte MSM header with empty masks and the given timestamp.
func HeaderOnlyMSM(msgType int, timestamp uint) []byte {
	h := &MSMHeader{Type: msgType, Station: 1, Timestamp: timestamp}
	w := &BitWriter{}
	MSMHeaderBits(w, h)
	return Frame(w.Bytes())
}

// Station is the input of the 1005/1006 encoder.
type Station struct {
	Type    int // 1005 or 1006 (any value is encoded as given)
	ID      uint
	ITRF    uint
	Ign1    uint // 4 bits
	X, Y, Z int64
	Ign2    uint // 2 bits
	Ign3    uint // 2 bits
	Height  uint // 16 bits, 1006 only
}

// EncodeStation builds the payload of a 1005 (152 bits) or 1006 (168 bits)
// message; withHeight selects the layout independently of Type so mistyped
// payloads can be built.
func EncodeStation(s *Station, withHeight bool, extra int) []byte {
	w := &BitWriter{}
	w.PutU(uint64(s.Type), 12)
	w.PutU(uint64(s.ID), 12)
	w.PutU(uint64(s.ITRF), 6)
	w.PutU(uint64(s.Ign1), 4)
	w.PutS(s.X, 38)
	w.PutU(uint64(s.Ign2), 2)
	w.PutS(s.Y, 38)
	w.PutU(uint64(s.Ign3), 2)
	w.PutS(s.Z, 38)
	if withHeight {
		w.PutU(uint64(s.Height), 16)
	}
	p := w.Bytes()
	return append(p, make([]byte, extra)...)
}
