package ref

import (
	"log/slog"
	"reflect"
	"time"
)

// ValueCopyable says whether copying a value of type t by assignment gives an
// independent copy: no maps, slices, channels, interfaces or pointers in it
// (time.Time's *Location and a *slog.Logger are immutable, so they may be shared).
// The search copies the handler at every branch when this holds and rebuilds it
// from a fresh handler.New by replaying the history when it does not.
func ValueCopyable(t reflect.Type) bool {
	if t == reflect.TypeOf(time.Time{}) || t == reflect.TypeOf((*slog.Logger)(nil)) {
		return true
	}
	switch t.Kind() {
	case reflect.Bool, reflect.Int, reflect.Int8, reflect.Int16, reflect.Int32, reflect.Int64,
		reflect.Uint, reflect.Uint8, reflect.Uint16, reflect.Uint32, reflect.Uint64, reflect.Uintptr,
		reflect.Float32, reflect.Float64, reflect.Complex64, reflect.Complex128, reflect.String:
		return true
	case reflect.Array:
		return ValueCopyable(t.Elem())
	case reflect.Struct:
		for i := 0; i < t.NumField(); i++ {
			if !ValueCopyable(t.Field(i).Type) {
				return false
			}
		}
		return true
	}
	return false
}
