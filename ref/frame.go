package ref

// CRC24Q computes the CRC-24Q (polynomial 0x1864CFB, init 0) bit by bit.
func CRC24Q(data []byte) uint32 {
	var crc uint32
	for _, b := range data {
		crc ^= uint32(b) << 16
		for i := 0; i < 8; i++ {
			crc <<= 1
			if crc&0x1000000 != 0 {
				crc ^= 0x1864CFB
			}
		}
	}
	return crc & 0xFFFFFF
}

// Frame wraps a payload (1..1023 bytes) into an RTCM3 frame.
func Frame(payload []byte) []byte {
	n := len(payload)
	f := make([]byte, 0, n+6)
	f = append(f, 0xD3, byte(n>>8)&0x03, byte(n))
	f = append(f, payload...)
	c := CRC24Q(f)
	return append(f, byte(c>>16), byte(c>>8), byte(c))
}

// WithCRC appends the CRC of b to a copy of b.
func WithCRC(b []byte) []byte {
	f := append([]byte{}, b...)
	c := CRC24Q(f)
	return append(f, byte(c>>16), byte(c>>8), byte(c))
}

// Payload builds a payload of length n whose first 12 bits are msgType; the
// remaining bits come from fill (called with the byte index; the low nibble
// of byte 1 is taken from fill(1)).
func Payload(msgType, n int, fill func(i int) byte) []byte {
	p := make([]byte, n)
	for i := range p {
		if fill != nil {
			p[i] = fill(i)
		}
	}
	if n >= 1 {
		p[0] = byte(msgType >> 4)
	}
	if n >= 2 {
		p[1] = byte(msgType<<4) | p[1]&0x0F
	}
	return p
}

// TypedFrame is Frame(Payload(...)).  With n==1 only the top 8 type bits fit;
// the reported type then includes the first 4 bits of the CRC, see FrameType.
func TypedFrame(msgType, n int, fill func(i int) byte) []byte {
	return Frame(Payload(msgType, n, fill))
}

// IsFrame says whether b is exactly one RTCM3 frame: preamble, six zero bits,
// non-zero 10-bit length equal to the payload size, CRC over all preceding bytes.
func IsFrame(b []byte) bool {
	if len(b) < 7 || b[0] != 0xD3 || b[1]&0xFC != 0 {
		return false
	}
	n := int(b[1]&0x03)<<8 | int(b[2])
	if n == 0 || len(b) != n+6 {
		return false
	}
	c := CRC24Q(b[:n+3])
	return b[n+3] == byte(c>>16) && b[n+4] == byte(c>>8) && b[n+5] == byte(c)
}

// FrameType is the 12 bits that follow the 3-byte leader.
func FrameType(b []byte) int { return int(b[3])<<4 | int(b[4])>>4 }

// Seg is one delivered segment: Type -1 for non-RTCM.
type Seg struct {
	Type int
	Raw  []byte
}

// Segment is the reference stream segmenter: the framing rules as documented
// (skip to 0xD3; junk before it is one non-RTCM segment; a candidate needs six
// zero bits and a non-zero length, else its first five bytes are non-RTCM; a
// complete candidate with a good CRC is a frame, otherwise non-RTCM; whatever
// is left when the input ends is non-RTCM).
func Segment(s []byte) []Seg {
	var out []Seg
	i := 0
	for i < len(s) {
		j := i
		for j < len(s) && s[j] != 0xD3 {
			j++
		}
		if j > i {
			// junk s[i:j]; if it ran to the end it is the last segment.
			out = append(out, Seg{-1, s[i:j]})
			i = j
			continue
		}
		// s[i] == 0xD3
		if len(s)-i < 5 {
			out = append(out, Seg{-1, s[i:]})
			return out
		}
		n := int(s[i+1]&0x03)<<8 | int(s[i+2])
		if s[i+1]&0xFC != 0 || n == 0 {
			out = append(out, Seg{-1, s[i : i+5]})
			i += 5
			continue
		}
		if len(s)-i < n+6 {
			out = append(out, Seg{-1, s[i:]})
			return out
		}
		f := s[i : i+n+6]
		if IsFrame(f) {
			out = append(out, Seg{FrameType(f), f})
		} else {
			out = append(out, Seg{-1, f})
		}
		i += n + 6
	}
	return out
}

// FrameWithCRC builds a valid frame of n payload bytes (n >= 5) of the given
// type whose 24-bit CRC is exactly want (see PayloadFrameWithCRC).
func FrameWithCRC(msgType, n int, fill func(i int) byte, want uint32) []byte {
	return PayloadFrameWithCRC(Payload(msgType, n, fill), want)
}

// PayloadFrameWithCRC frames the payload after overwriting its last three
// bytes so that the frame's 24-bit CRC is exactly want: CRC-24Q has zero
// initial value and no final XOR, and each shift step is invertible, so the
// register before the last 24 message bits is determined.
func PayloadFrameWithCRC(payload []byte, want uint32) []byte {
	p := append([]byte{}, payload...)
	n := len(p)
	head := append([]byte{0xD3, byte(n>>8) & 0x03, byte(n)}, p[:n-3]...)
	s := CRC24Q(head)
	v := want & 0xFFFFFF
	for i := 0; i < 24; i++ {
		if v&1 != 0 {
			v ^= 0x1864CFB
		}
		v >>= 1
	}
	x := s ^ v
	p[n-3], p[n-2], p[n-1] = byte(x>>16), byte(x>>8), byte(x)
	f := Frame(p)
	if got := uint32(f[len(f)-3])<<16 | uint32(f[len(f)-2])<<8 | uint32(f[len(f)-1]); got != want&0xFFFFFF {
		panic("ref.PayloadFrameWithCRC: construction failed")
	}
	return f
}
