// Package ref holds the reference models the checks compare go-ntrip against.
// Nothing here imports or shares code with /repo.
package ref

import "math/big"

// BitWriter builds an MSB-first bit string, one bit per element.
type BitWriter struct{ B []byte }

// PutU appends the low n bits of v, most significant first.
func (w *BitWriter) PutU(v uint64, n int) {
	for i := n - 1; i >= 0; i-- {
		w.B = append(w.B, byte((v>>uint(i))&1))
	}
}

// PutS appends v as an n-bit two's-complement number.
func (w *BitWriter) PutS(v int64, n int) { w.PutU(uint64(v), n) }

// PutBool appends one bit.
func (w *BitWriter) PutBool(b bool) {
	if b {
		w.B = append(w.B, 1)
	} else {
		w.B = append(w.B, 0)
	}
}

// Len is the number of bits written.
func (w *BitWriter) Len() int { return len(w.B) }

// Bytes packs the bits, zero padded to a whole byte.
func (w *BitWriter) Bytes() []byte {
	out := make([]byte, (len(w.B)+7)/8)
	for i, b := range w.B {
		if b != 0 {
			out[i/8] |= 0x80 >> uint(i%8)
		}
	}
	return out
}

// BitsOf explodes a buffer into one-bit-per-element form.
func BitsOf(buf []byte) []byte {
	out := make([]byte, 0, len(buf)*8)
	for _, b := range buf {
		for i := 7; i >= 0; i-- {
			out = append(out, (b>>uint(i))&1)
		}
	}
	return out
}

// SliceU is the unsigned value of bits[pos:pos+n] as a big integer.
func SliceU(bits []byte, pos, n int) *big.Int {
	v := new(big.Int)
	for i := 0; i < n; i++ {
		v.Lsh(v, 1)
		if bits[pos+i] != 0 {
			v.Or(v, big.NewInt(1))
		}
	}
	return v
}

// SliceS is the two's-complement value of bits[pos:pos+n].
func SliceS(bits []byte, pos, n int) *big.Int {
	v := SliceU(bits, pos, n)
	if bits[pos] != 0 {
		v.Sub(v, new(big.Int).Lsh(big.NewInt(1), uint(n)))
	}
	return v
}

// GetU reads n<=64 bits at pos from a packed buffer.
func GetU(buf []byte, pos, n int) uint64 {
	var v uint64
	for i := pos; i < pos+n; i++ {
		v = v<<1 | uint64((buf[i/8]>>(7-uint(i%8)))&1)
	}
	return v
}
