package ref

import "time"

// Constellation time scales relative to UTC (the offsets the property states).
type Constellation int

const (
	GPS Constellation = iota
	Galileo
	Glonass
	Beidou
)

// ConstNames are the names used in reports.
var ConstNames = [...]string{"GPS", "Galileo", "Glonass", "Beidou"}

// MSMType returns the MSM4 (high=false) or MSM7 message type of a constellation.
func (c Constellation) MSMType(msm7 bool) int {
	base := [...]int{1074, 1094, 1084, 1124}[c]
	if msm7 {
		return base + 3
	}
	return base
}

// offset is how far the constellation's clock is ahead of UTC.
func (c Constellation) offset() time.Duration {
	switch c {
	case GPS, Galileo:
		return 18 * time.Second
	case Beidou:
		return 4 * time.Second
	default:
		return 3 * time.Hour // GLONASS: Moscow time
	}
}

const week = 7 * 24 * time.Hour

// WeekStart is the UTC instant at which the constellation week containing the
// UTC instant u starts: Sunday 00:00:00 on the constellation's own clock.
func (c Constellation) WeekStart(u time.Time) time.Time {
	local := u.UTC().Add(c.offset()) // reading of the constellation clock, expressed as a UTC wall time
	midnight := time.Date(local.Year(), local.Month(), local.Day(), 0, 0, 0, 0, time.UTC)
	sunday := midnight.AddDate(0, 0, -int(local.Weekday()))
	return sunday.Add(-c.offset())
}

// Timestamp is the 30-bit MSM timestamp a message observed at UTC instant u
// carries (u must be a whole number of milliseconds).
func (c Constellation) Timestamp(u time.Time) uint {
	d := u.Sub(c.WeekStart(u))
	ms := uint(d / time.Millisecond)
	if c == Glonass {
		day := ms / 86400000
		return day<<27 | ms%86400000
	}
	return ms
}

// NextRollover is the first week start strictly after u.
func (c Constellation) NextRollover(u time.Time) time.Time {
	return c.WeekStart(u).Add(week)
}
