#!/bin/bash
# Re-runs every stored property-breaking change (seeded/* and mutants/*) against
# the checks that should catch it and prints one line each.
cd "$(dirname "$0")/.."
for d in seeded/*/; do
  id=$(jq -r .property "$d/meta.json")
  timeout 1200 tools/seedcheck.sh "$d" "$id" 2>&1 | grep -E "DETECTED|MISSED|NOT CONFIRMED|does not" | sed "s#^#$(basename $d): #"
done
declare -A M=( [M06]=C02 [M11]=C05 [M13]=C06 [M18_]=C08 [M18b]=C08 [M19]=C09 [M20]=C13 [M21]=C10 [M22_]=C11 [M22b]=C11 [M22c]=C11 [M23_]=C13 [M23b]=C13 [M24]=C13 [M26]=C15 [M27]=C15 [M28_]=C16 [M28b]=C16 [M29_]=C18 [M29b]=C18 [M30]=C18 [M31]=C19 [M32_]=C19 [M32b]=C19 [M33]=C11 [M_D1]=C07 )
for f in mutants/*.diff; do
  b=$(basename $f)
  for k in "${!M[@]}"; do case "$b" in $k*) SKIP_BASELINE=1 timeout 1200 tools/mutant.sh "$f" ${M[$k]} 2>&1 | grep MUTANT;; esac; done
done
