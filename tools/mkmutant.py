#!/usr/bin/env python3
"""mkmutant.py <name> <file-relative-to-repo> <<< 'OLD\n====\nNEW'  -> mutants/<name>.diff"""
import sys, subprocess, tempfile, os, shutil
name, rel = sys.argv[1], sys.argv[2]
old, new = sys.stdin.read().split("\n====\n")
new = new.rstrip("\n")
src = open("/repo/" + rel).read()
assert src.count(old) == 1, "old text occurs %d times" % src.count(old)
d = tempfile.mkdtemp()
os.makedirs(os.path.join(d, "a", os.path.dirname(rel))); os.makedirs(os.path.join(d, "b", os.path.dirname(rel)))
open(os.path.join(d, "a", rel), "w").write(src)
open(os.path.join(d, "b", rel), "w").write(src.replace(old, new))
r = subprocess.run(["diff", "-u", "a/" + rel, "b/" + rel], cwd=d, capture_output=True, text=True)
open("/verif/mutants/%s.diff" % name, "w").write(r.stdout)
shutil.rmtree(d)
print("wrote mutants/%s.diff (%d lines)" % (name, len(r.stdout.splitlines())))
