#!/bin/bash
# Runs the repository's own test suite (no overlay, no hooks) in $1 (default /repo)
# and compares the passing set with /root/.vp/BASELINE.json stable_pass.
REPO=${1:-/repo}
export GOPROXY=off GOSUMDB=off GOTOOLCHAIN=local GOFLAGS=
OUT=$(mktemp /tmp/baseline.XXXXXX.json)
trap 'rm -f "$OUT"' EXIT
(cd "$REPO" && go test -json -vet=off -count=1 -timeout 25m ./... > "$OUT" 2>/dev/null)
python3 - "$OUT" <<'PY'
import json,sys
passed=set(); failed=set()
for line in open(sys.argv[1]):
    try: e=json.loads(line)
    except Exception: continue
    if e.get('Test') and '/' not in e['Test']:
        k=e['Package']+'::'+e['Test']
        if e.get('Action')=='pass': passed.add(k)
        elif e.get('Action')=='fail': failed.add(k)
base=set(json.load(open('/root/.vp/BASELINE.json'))['stable_pass'])
missing=sorted(base-passed)
print("baseline: %d/%d stable-pass tests pass; failing tests: %s" % (len(base&passed), len(base), sorted(failed)))
for m in missing: print("  MISSING PASS:", m)
sys.exit(1 if missing else 0)
PY
