#!/bin/bash
# tools/mutcampaign.sh <worker-id> <nworkers> <file>...
# Systematic mutation campaign: every syntactic mutation (cmd/mutgen) of the
# given source files of /repo, applied to a private scratch copy.  A mutant that
# compiles and passes the repository's own test suite is run against the quick
# checks, cheapest first, until one reports a violation.  One line per mutant in
# $MUTLOG (default /root/mutcampaign.log):
#   KILLED-BY-REPO-TESTS | NOT-COMPILING | DETECTED <check> | SURVIVED
# Worker w of n takes the mutations whose index is w modulo n.
set -u
W=$1; N=$2; shift 2
VERIF=$(cd "$(dirname "$0")/.." && pwd)
LOG=${MUTLOG:-/root/mutcampaign.log}
export GOPROXY=off GOSUMDB=off GOTOOLCHAIN=local
S=$(mktemp -d /tmp/mutcamp.XXXXXX); trap 'rm -rf "$S"' EXIT
rsync -a --exclude .git /repo/ "$S/repo/"
(cd "$VERIF" && GOFLAGS=-mod=mod go build -o "$S/mutgen" ./cmd/mutgen) || exit 2
CHECKS=${MUTCHECKS:-"C20 C03 C12 C01 C14 C05 C17 C04 C06 C08 C07 C15 C02"}
for f in "$@"; do
  total=$("$S/mutgen" -file "/repo/$f" -list | wc -l)
  pkg=$(dirname "$f")
  for ((i=W; i<total; i+=N)); do
    grep -q " $f#$i " "$LOG" 2>/dev/null && continue   # already done (the campaign can be stopped and resumed)
    desc=$("$S/mutgen" -file "/repo/$f" -apply $i -out "$S/repo/$f" 2>/dev/null) || continue
    tag="$f#$i line=${desc%% *} ${desc#* }"
    if ! (cd "$S/repo" && GOFLAGS= go build ./... >/dev/null 2>&1); then
      echo "NOT-COMPILING $tag" >> "$LOG"; cp "/repo/$f" "$S/repo/$f"; continue
    fi
    if ! (cd "$S/repo" && GOFLAGS= timeout 120 go test -vet=off -count=1 -timeout 100s "./$pkg/" >/dev/null 2>&1) && [ "$pkg" != rtcm/handler ]; then
      echo "KILLED-BY-REPO-TESTS $tag" >> "$LOG"; cp "/repo/$f" "$S/repo/$f"; continue
    fi
    # (a mutant that hangs the suite does not pass it)
    if ! timeout 300 "$VERIF/tools/baseline.sh" "$S/repo" >/dev/null 2>&1; then
      echo "KILLED-BY-REPO-TESTS $tag" >> "$LOG"; cp "/repo/$f" "$S/repo/$f"; continue
    fi
    verdict="SURVIVED"
    for c in $CHECKS; do
      out=$(cd "$VERIF" && VERIF_NO_386=1 VERIF_ROOT="$S/vroot" VERIF_REPO="$S/repo" timeout 900 ./check "$c" quick 2>&1); code=$?
      if [ $code -eq 1 ] && echo "$out" | grep -q "^VIOLATION property=$c"; then
        verdict="DETECTED $c ($(echo "$out" | grep -m1 fingerprint: | sed 's/^ *fingerprint: //' | cut -c1-90))"; break
      fi
      if [ $code -eq 2 ]; then verdict="DETECTED-AS-MACHINERY-FAILURE $c"; break; fi
    done
    echo "$verdict $tag" >> "$LOG"
    cp "/repo/$f" "$S/repo/$f"
  done
done
