#!/usr/bin/env python3
"""Regenerates /verif/MANIFEST.json from the table below (kept in one place so
the manifest is always valid and in step with what ./check supports)."""
import json, os
ROOT = os.path.dirname(os.path.dirname(os.path.abspath(__file__)))
ALL = ["C%02d" % i for i in range(1, 21)]

# id -> (engine, technique, level text, level note, design_ref)
CHECKS = {
 "C20": ("enum", "complete enumeration of the 4098 message types against an independent classification table",
         "Every one of the 4096 message types and both negative sentinels is run through every classification entry point, a synthetic header-only frame of that type through GetMessage/Analyse/String at both log levels, and all four decoders; the space is finite and enumerated completely, so within the observation set this is a decision, not a sample.",
         "Trusts the independent table in props/c20.go (MSM4/MSM7 = 1074..1137 ending 4/7, names by stem). Synthetic frames have empty masks only.", "5/C20"),
}

def main():
    checks = []
    for pid in ALL:
        if pid not in CHECKS:
            continue
        eng, tech, text, note, ref = CHECKS[pid]
        checks.append({
            "property_id": pid,
            "quick_cmd": "./check %s quick" % pid,
            "thorough_cmd": "./check %s thorough" % pid,
            "evidence_file": "/verif/evidence/%s.json" % pid,
            "replay_cmd_template": "./check replay {path}",
            "engine": eng,
            "level_claimed": {"category": "model_checking", "text": text, "design_ref": "DESIGN.md §" + ref},
            "level_note": note,
            "technique": tech,
        })
    na = [{"property_id": p, "reason": "check not built yet in this round (planned, see DESIGN.md §5); nothing is claimed for it"} for p in ALL if p not in CHECKS]
    m = {
        "version": 1,
        "setup_cmd": "./setup.sh",
        "hooks": {
            "guard": "go build -overlay (no hook is committed in /repo; instrumentation is generated from the current tree at check time by cmd/instr)",
            "enable": "./check <id> generates an overlay file set in a scratch directory and passes -overlay to go build; without it the tree is the pinned one",
            "baseline_off_cmd": "cd /repo && go test -vet=off -count=1 ./...",
            "source_commits": [],
            "add_only": True,
        },
        "engines": [
            {"name": "enum", "path": "props/ ref/", "serves_properties": [p for p in ALL if p in CHECKS and CHECKS[p][0] == "enum"],
             "kind_free_text": "bounded-exhaustive enumerators over complete finite input/history spaces, compared against independent reference models"},
            {"name": "mc", "path": "mc/ cmd/instr/", "serves_properties": [p for p in ALL if p in CHECKS and CHECKS[p][0] == "mc"],
             "kind_free_text": "hand-written controlled scheduler + stateless DFS explorer (iterative preemption/deviation bounding) over go-ntrip code instrumented at build time through go build -overlay"},
        ],
        "checks": checks,
        "not_applicable": na,
        "notes": "All checks rebuild against /repo's working tree (VERIF_REPO overrides). Exit 0 held / 1 VIOLATION / 2 machinery failure. Known findings: KNOWN_FINDINGS.json.",
    }
    with open(os.path.join(ROOT, "MANIFEST.json"), "w") as f:
        json.dump(m, f, indent=1)
        f.write("\n")

if __name__ == "__main__":
    main()
