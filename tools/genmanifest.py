#!/usr/bin/env python3
"""Regenerates /verif/MANIFEST.json from the table below (kept in one place so
the manifest is always valid and in step with what ./check supports)."""
import json, os
ROOT = os.path.dirname(os.path.dirname(os.path.abspath(__file__)))
ALL = ["C%02d" % i for i in range(1, 21)]

# id -> (engine, technique, level text, level note, design_ref)
CHECKS = {
 "C01": ("enum", "bounded-exhaustive enumeration of byte streams (complete small alphabets, segment sequences, single-frame mutation sweeps) against an independent frame predicate",
         "Every string up to length 6/8 over alphabets built from a valid frame's own bytes, every sequence of <=3/4 menu segments and every single-bit/burst/byte/truncation/length-field mutation of frames of every payload length is pushed through the stream handler and GetMessage; each typed result must be exactly one CRC-valid frame by the independent bitwise CRC-24Q predicate, a prefix of the input, with the reported type equal to its first 12 payload bits. Complete within the stated alphabets and lengths, no sampling.",
         "Trusts /verif/ref (bitwise CRC-24Q, IsFrame). Streams outside the enumerated shapes (longer than 8 symbols and not a menu sequence / single-frame mutation) are not covered.", "5/C01"),
 "C02": ("mc", "bounded-exhaustive input enumeration through the sequential framing seam + stateless model checking of producer/HandleMessages/consumer under a controlled scheduler (all interleavings, state-key pruning)",
         "Input dimension: complete enumeration of short strings, frame cuts, menu sequences and 0xD3-free runs of every length to 300 and round every power of two to 64K (thorough: every length to 8300), oracle concat(RawData)==input. Schedule dimension: the real HandleMessages, instrumented at build time, runs with a producer and a consumer thread under a scheduler that owns every channel operation; every interleaving per stream and channel-capacity pair, plus 24-message bursts with a consumer that lags as far as the pipeline allows; losslessness, order, single close, no panic, no blocked thread on each execution.",
         "Scheduling points are channel operations of rtcm/handler and rtcm/pushback; channel/goroutine semantics are those of mc/mcrt (validated by its conformance tests against the Go runtime). Evidence lists scenarios whose unbounded pass was cut.", "5/C02"),
 "C03": ("enum", "bounded-exhaustive enumeration of segment sequences (valid frames of all lengths, D3-free junk of all lengths, truncated tails, several streams through one handler) against the constructed expected segmentation",
         "All sequences of <=3/4 segments from a menu of valid frames and junk runs, every truncation position of a tail frame, every payload length 1..1023 alone/between junk/back-to-back, a frame after and between 0xD3-free runs of every length (to 300 and round powers of two to 64K; thorough to 8300), and three consecutive streams through ONE handler with the real HandleMessages for 22 ways the first stream can end; the delivered (type, bytes) list must equal the constructed list exactly.",
         "Precondition (no stray 0xD3 in junk) holds by construction. Sequences longer than 4 segments are not covered.", "5/C03"),
 "C04": ("enum", "bounded-exhaustive enumeration of a complete product of MSM4/MSM7 messages (types x mask shapes x cell masks x field values x flags x paddings) built by an independent encoder, decoded and compared field by field",
         "Every message of the product 14 types x mask shapes (incl. every n x m with n<=4, m<=8, n*m<=16, 64x1, 32x2, 8x8, 2x32) x cell masks x 9 value assignments (zero, max, reserved 'invalid', -1, alternating, counters with zero first/last cells or fields) x header scalars x multiple-message flag x padding lengths is encoded by the reference encoder and decoded by the library; every exported header, satellite and signal field, including the satellite/signal id each cell is attached to, must equal the encoder input, no message may be rejected, and the previously decoded message is compared again after each decode.",
         "The reference encoder (/verif/ref/msm.go) defines 'well-formed'. Field values are structured assignments, not all 2^n values per field (C08 and C14 sweep values).", "5/C04"),
 "C05": ("enum", "bounded-exhaustive enumeration of 1005/1006 field values (boundary products, every reserved-bit value, dense integer sweeps for the display clause), paddings, truncations and wrong-type payloads against an independent encoder and an integer decimal formatter",
         "Boundary-set products over the three 38-bit coordinates, all reserved-bit values, station ids, ITRF years and heights, every amount of trailing padding up to the 1023-byte maximum, every truncation length (re-framed, and raw prefixes from 0 bytes handed to the decoders) and cross-typed payloads, through the decoders directly and through handler.GetMessage+String at both log levels; plus dense sweeps of every integer in windows around 0, +-2^37 and each +-2^k. Fields must be exact, the display must show value x 0.0001 to four decimals exactly (computed in integers), and short or mistyped payloads must be rejected.",
         "Coordinates outside the boundary set and sweep windows are not enumerated.", "5/C05"),
 "C06": ("enum", "explicit enumeration of message histories from the real handler state (cloned at every branch) against a reference GNSS time model",
         "From start times at Wednesday noon and each constellation's roll-over -1 ms/0/+1 ms in 4 time zones, and in weeks of 2013, 2010 and the 2019/2020 year end, every history of <=3/4 messages over four constellations and a 9-step time-advance menu plus illegal timestamps, and single-constellation histories of depth <=5/6, is run through handler.GetMessage on CRC-valid frames; plus four-message histories delivered through Handler.HandleMessages and cut into consecutive streams on one handler in every way. SentAt and StartOfWeek of every message must equal the reference model's true instant and week start; illegal timestamps must give an error and leave later messages exact.",
         "Reference model /verif/ref/gnsstime.go (offsets 18 s, 4 s, 3 h as the statement gives). Depth-bounded; the advance menu is finite.", "5/C06"),
 "C07": ("enum", "bounded-exhaustive enumeration of hostile inputs (complete small alphabets, every payload length x 14 payload patterns x 16 decodable types, every truncation of well-formed messages, every reserved-value combination, every type, sequences through one handler) through every public entry point under recover and a stall watchdog",
         "Every CRC-valid frame of each decodable type with every payload length 1..1023 (quick: a subset) and 14 deterministic payload patterns including masks announcing more cells than fit and illegal timestamps, every truncation of well-formed MSM/1005/1006 messages, complete MSM messages with every subset of reserved 'invalid' values, all 4096 types with short payloads, all short strings over a frame alphabet, and all ordered pairs and triples of a 26-frame menu through ONE handler go through the stream loop, GetMessage, Analyse, String (both levels), Copy and the four decoders; any panic, unbounded framing loop or stall is a violation.",
         "Payload bits are the enumerated patterns, not all 2^n values. A hang is reported only if it reproduces.", "5/C07"),
 "C08": ("enum", "exhaustive / strided sweeps of every fine field at anchor points plus boundary products, against exact rational arithmetic (math/big), 8 ulp tolerance",
         "Signal cells are built through the packages' constructors and through decoded messages; whole-ms x fractional products, every value (thorough) of each fine range/phase/rate field at 6 anchors, the full boundary product including every 'invalid' marker and zero rough ranges, all 4 x 34 constellation/signal-id wavelengths and MSM4/MSM7 pairs encoding the same quantity are compared with the standard's formulas evaluated in exact rationals; six messages are decoded first and checked afterwards.",
         "Negative true values and undefined wavelengths are only checked for absence of panics (excluded by the statement). Band assignment of signal ids is not pinned.", "5/C08"),
 "C09": ("mc", "stateless model checking of the real reader->framing->fan-out pipeline under a controlled scheduler with virtual time (all interleavings and source chunkings per scenario, state-key pruning; deviation-bounded where the budget cuts the unbounded pass)",
         "AppCore.HandleMessagesUntilEOF, file_handler, HandleMessages and the push-back channel run instrumented under a scheduler owning every goroutine, channel operation, timer and source Read. Streams x consumer lists (buffered, unbuffered, nil entries, lagging consumers), second calls on the same AppCore, final data handed over together with io.EOF, sources that pause under a non-zero tolerance, inputs of 4095..8193 bytes: each consumer must receive exactly the sequential framing of the bytes, the call must return, all goroutines must finish, nothing may panic or close twice.",
         "Threads share memory only through channels (state-key pruning relies on it). 'No data race' is outside the cooperative scheduler and only touched by the auxiliary -race pass. Evidence lists scenarios whose unbounded pass was cut and the bound completed for them.", "5/C09"),
 "C10": ("mc", "stateless model checking of the shipped rtcmfilter.HandleMessages under a controlled scheduler (all interleavings of pipeline and writer goroutines per scenario, state-key pruning) + bounded-exhaustive input enumeration under the default schedule",
         "The real HandleMessages of rtcmfilter is driven through an in-package harness added by go build -overlay; stdout, record and display writers are harness-owned and every Write is a scheduling point. Streams x log configurations under every interleaving where the unbounded pass completes (else deviation bound 1-2); all <=2/3-segment menu sequences under the default schedule; display-log write errors, a stalled writer with 24 frames in flight, inputs ending in a hard read error, a quiet source with a non-zero EOF tolerance, inputs of 4095..8193 bytes. At quiescence stdout must equal the valid frames of the sequential framing, the record must be identical and the display must have exactly one entry per message.",
         "dailylogger.New is redirected to an in-memory sink (file naming belongs to the dependency). Expected output = the valid frames by the independent reference segmenter; the readable log is compared with the implementation's own display of its sequential framing.", "5/C10"),
 "C11": ("mc", "stateless model checking of the shipped HandleMessages of displayrtcm3 and rtcmfilter under a controlled scheduler, oracle evaluated at the instant the call returns",
         "Both entry points run instrumented with a harness-owned writer whose Write is a scheduling point (optionally two steps per call, optionally stalled until nothing else can run); for streams with 1-3 messages (and 24 for the stalled writer) every interleaving is explored where the unbounded pass completes and at the moment the call returns on the calling thread the writer must hold the complete expected output.",
         "Only the writer passed to the entry point is judged. Expected output comes from sequential framing by the implementation.", "5/C11"),
 "C12": ("enum", "bounded-exhaustive fault enumeration: every bit flip, 2-bit burst and byte overwrite of payload+CRC of a victim frame in every position of 3-segment streams, differential against the uncorrupted stream",
         "For victim lengths 1..255 (1023 thorough) in each of three positions between frame, junk and MSM neighbours, every CRC-breaking corruption in the enumerated classes must yield the same delivery list with the victim replaced by one non-RTCM message of exactly its bytes; for time-consistent streams the timestamps, time texts and error texts of the neighbours must be unchanged too.",
         "Corruption sets beyond single/double adjacent flips, single byte overwrites and D3 pairs are not enumerated.", "5/C12"),
 "C13": ("mc", "fault-sequence enumeration under the controlled scheduler with a virtual clock: EOF/timeout runs, errors, short chunks and data-with-error answers injected at every byte position, combined with preemptions and consumer pauses, up to a deviation bound",
         "file_handler.Handle runs instrumented (virtual time.Now/Sleep) over a scripted source; at every Read the explorer may inject one of 12 alternative answers. All combinations of <=2/3 deviations are explored for 7 streams x 5 tolerance settings (the two options varied independently) x 2 channel capacities; delivered messages must equal the framing of exactly the supplied bytes, giving up must respect the tolerance (not earlier, not much later), zero tolerance must stop at once, the read error must be returned and the channel closed once.",
         "Deviation-bounded, not unbounded (the fault space is infinite by construction). Time is virtual; real OS timing is not modelled.", "5/C13"),
 "C14": ("enum", "exhaustive enumeration of all bit patterns of small buffers x all (pos,width), all widths 1..64 x all alignments x structured patterns, and fields round power-of-two byte indices of large buffers, against shift-and-mask / math/big references",
         "E1 is complete over 2-byte (quick) / 3-byte (thorough) buffers: every bit pattern, every field position and width, unsigned and signed. E2 covers every width 1..64 at every alignment on exactly-sized and oversized buffers with walking-bit, pair and complement patterns, so influence of outside bits and out-of-field reads are detected. E3 covers every position and width round byte indices 2^8..2^24 (thorough 2^29) of large buffers.",
         "Fields wider than 24 bits are checked on structured patterns, not all 2^64 values.", "5/C14"),
 "C15": ("mc", "explicit enumeration of frame histories through one handler (state cloned per branch) + stateless model checking of concurrent decoders with yield points in the whole decoding library (preemption-bounded)",
         "Histories: every sequence of <=3/4 inputs from a 25-entry alphabet (all decodable families, shape-confusable masks, reserved values, double-error frames, junk) through one handler at both log levels; decoded structure and display (minus the MSM time lines) must equal the fresh-handler baseline, repeated displays must be identical and leave the decoded fields as an undisplayed twin has them, raw bytes untouched, earlier messages unchanged by later decodes, and a value copy must be unaffected by what another consumer does with its own copy (display at another level, Analyse, field assignments). Concurrency: 2-3 threads decode and display on separate handlers and on value copies of one message under the controlled scheduler with scheduling points at every function and loop entry of the rtcm packages; every schedule with <=1/2 preemptions must reproduce the sequential results.",
         "Yield-point granularity; memory-model races only via the auxiliary -race pass.", "5/C15"),
 "C16": ("mc", "stateless model checking of the shipped rtcmlogger start() with harness-owned stdin/stdout/record writer: all chunkings and all interleavings of the copy loop and the recorder, plus an enumeration of start-up environments with the record in real files",
         "start() runs instrumented (os.Stdin/os.Stdout and dailylogger.New redirected at build time); for 8 input sizes around the 8096-byte block, event logging on/off and one- or two-step writes, every chunking and interleaving is explored (the unbounded pass completes for every scenario); a record writer that fails on every call must not stall the pass-through; and 96 start-up environments (host time zone x record-directory state x input x event log) with the record in real files. When start() returns stdout and the record must both equal stdin and the recorder must terminate.",
         "The record is an in-memory sink or a file-backed stand-in that keeps the daily writer's contract (rotation at midnight belongs to the dependency). Read errors other than EOF are not injected.", "5/C16"),
 "C17": ("mc", "explicit enumeration of (start time, first observation, history) triples from the real handler state against the reference GNSS time model + the application path (displayrtcm3's own argument parsing and HandleMessages) under the controlled scheduler for an enumeration of host time zones and date arguments",
         "For each constellation, start times at the week start, +1 ms, +1 s, Wednesday noon and the week end -1 s/-1 ms in 4 time zones (and weeks of 2013, 2010, 2019/2020), first observations before, at and after T within the same constellation week, followed by every history of depth <=2/3 with the C06 step menu; every reported time and week start must equal the reference model. Application level: 7 host time zones x 3 observation instants x 16 date arguments through getTime + HandleMessages of displayrtcm3; every 'Time' line must show the true observation time.",
         "Same reference model as C06; depth-bounded. 'yyyy-mm-dd' is taken as midnight UTC, as the program documents.", "5/C17"),
 "C18": ("mc", "explicit-state BFS over the real queue (capacities 1..8, canonicalised states) + stateless model checking of concurrent adders/readers with preemption bounding and a brute-force linearizability oracle",
         "Sequential: every reachable canonical state and transition for capacities 1..8 is compared with a slice model, plus 7x10^4-addition runs. Concurrent: the real queue with its sync import routed to the scheduler (Mutex, RWMutex with writer preference, TryLock) and yield points at every function/loop entry is run with 3 threads; every schedule with <=2/3 preemptions is explored and each call/return history must be linearizable.",
         "Yield-point granularity (function and loop entry, lock operations). 'No data race' only via the auxiliary -race pass.", "5/C18"),
 "C19": ("mc", "stateless model checking of the proxy's shipped relay and status code over in-memory net.Conn values under a controlled scheduler (chunking + scheduling choices, deviation bound 2; unbounded pass in the thorough tier)",
         "handleMessages, handleClientMessages, handleServerMessages, keepCircularQueueUpdated and ReportFeed.Status run instrumented (channels, goroutines, sync, time) with the package globals set as start() sets them; a status thread calls Status() (and switches the message log) at scheduler-chosen moments. Client streams (HTML-looking payloads and junk, malformed CRC-valid MSM frames, bursts of 2047..4096 bytes) x server streams x message log off/on/switched, and peers that stop reading: both directions must be relayed byte-for-byte, nothing may panic, spin or block the other direction, every report may list only a prefix of the framing of the client stream and must contain no '<'/'>' beyond the fixed template.",
         "TCP replaced by in-memory connections (kernel segmentation/timing not covered); status HTTP server not started; the daily log writer is the real type over a scratch directory; escaping judged on '<' and '>'.", "5/C19"),
 "C20": ("enum", "complete enumeration of the 4098 message types against an independent classification table",
         "Every one of the 4096 message types and both negative sentinels is run through every classification entry point, a synthetic header-only frame of that type through GetMessage/Analyse/String (and a bare String) at both log levels, all four decoders, and CRC-valid frames of 9 payload lengths through HandleMessages, whose classification must agree; the space is finite and enumerated completely, so within the observation set this is a decision, not a sample.",
         "Trusts the independent table in props/c20.go (MSM4/MSM7 = 1074..1137 ending 4/7, names by stem). Synthetic frames have empty masks only.", "5/C20"),
}

def main():
    checks = []
    for pid in ALL:
        if pid not in CHECKS:
            continue
        eng, tech, text, note, ref = CHECKS[pid]
        checks.append({
            "property_id": pid,
            "quick_cmd": "./check %s quick" % pid,
            "thorough_cmd": "./check %s thorough" % pid,
            "evidence_file": "/verif/evidence/%s.json" % pid,
            "replay_cmd_template": "./check replay {path}",
            "engine": eng,
            "level_claimed": {"category": "model_checking", "text": text, "design_ref": "DESIGN.md §" + ref},
            "level_note": note,
            "technique": tech,
        })
    na = [{"property_id": p, "reason": "check not built yet in this round (planned, see DESIGN.md §5); nothing is claimed for it"} for p in ALL if p not in CHECKS]
    m = {
        "version": 1,
        "setup_cmd": "./setup.sh",
        "hooks": {
            "guard": "go build -overlay (no hook is committed in /repo; instrumentation is generated from the current tree at check time by cmd/instr)",
            "enable": "./check <id> generates an overlay file set in a scratch directory and passes -overlay to go build; without it the tree is the pinned one",
            "baseline_off_cmd": "cd /repo && go test -vet=off -count=1 ./...",
            "source_commits": [],
            "add_only": True,
        },
        "engines": [
            {"name": "enum", "path": "props/ ref/", "serves_properties": [p for p in ALL if p in CHECKS and CHECKS[p][0] == "enum"],
             "kind_free_text": "bounded-exhaustive enumerators over complete finite input/history spaces, compared against independent reference models"},
            {"name": "mc", "path": "mc/ cmd/instr/", "serves_properties": [p for p in ALL if p in CHECKS and CHECKS[p][0] == "mc"],
             "kind_free_text": "hand-written controlled scheduler + stateless DFS explorer (iterative preemption/deviation bounding) over go-ntrip code instrumented at build time through go build -overlay"},
        ],
        "checks": checks,
        "not_applicable": na,
        "notes": "All checks rebuild against /repo's working tree (VERIF_REPO overrides). Exit 0 held / 1 VIOLATION / 2 machinery failure. Known findings: KNOWN_FINDINGS.json.",
    }
    with open(os.path.join(ROOT, "MANIFEST.json"), "w") as f:
        json.dump(m, f, indent=1)
        f.write("\n")

if __name__ == "__main__":
    main()
