#!/bin/bash
# tools/seedcheck.sh <seeded-dir> <property-id>...
# Confirms an independently written property-breaking change and runs our checks on it:
#  1. unchanged copy of /repo: demonstration passes
#  2. patched copy: builds, the repository's own suite still passes, demonstration fails
#  3. each named check, pointed at the patched copy, must exit 1 with a VIOLATION line
# Everything happens in a scratch copy that is removed afterwards; /repo is never touched.
set -u
D=$(readlink -f "$1"); shift
VERIF=$(cd "$(dirname "$0")/.." && pwd)
W=$(mktemp -d /tmp/seedchk.XXXXXX); trap 'rm -rf "$W"' EXIT
export GOPROXY=off GOSUMDB=off GOTOOLCHAIN=local
rsync -a --exclude .git /repo/ "$W/clean/"; rsync -a --exclude .git /repo/ "$W/mut/"
(cd "$W/mut" && patch -p1 -s < "$D/patch.diff") || { echo "SEED $(basename $D): patch does not apply to the current tree"; exit 2; }
demo_dir=$(jq -r .demo_dir "$D/meta.json" | sed 's#^/tmp/wt[0-9]*/[^/]*/##; s#^\./##')
tests=$(grep -ho 'func Test[A-Za-z0-9_]*' "$D"/demo_test.go | sed 's/func //' | paste -sd'|')
# meta.json may name environment settings the demonstration needs (e.g. "GOARCH=386")
demo_env=$(jq -r '.demo_env // ""' "$D/meta.json")
demo_flags=$(jq -r '.demo_flags // ""' "$D/meta.json")   # e.g. "-race"
run_demo() { cp "$D/demo_test.go" "$1/$demo_dir/zz_seed_demo_test.go"; (cd "$1" && env $demo_env GOFLAGS= go test $demo_flags -vet=off -count=1 -run "^($tests)\$" "./$demo_dir/" > "$W/demo.log" 2>&1); rc=$?; rm -f "$1/$demo_dir/zz_seed_demo_test.go"; return $rc; }
run_demo "$W/clean" && clean=pass || clean=FAIL
(cd "$W/mut" && GOFLAGS= go build ./... 2>"$W/build.log") || { echo "SEED $(basename $D): patched tree does not compile"; cat "$W/build.log"; exit 2; }
run_demo "$W/mut" && mut=PASS || mut=fail
"$VERIF/tools/baseline.sh" "$W/mut" > "$W/base.log" 2>&1 && base=pass || base=FAIL
echo "SEED $(basename $D): demo on clean tree=$clean, demo on patched tree=$mut, repository suite on patched tree=$base"
[ "$clean" = pass ] && [ "$mut" = fail ] && [ "$base" = pass ] || { echo "  -> NOT CONFIRMED (want pass/fail/pass)"; grep MISSING "$W/base.log" | head -3; tail -5 "$W/demo.log"; exit 3; }
rc=0
for id in "$@"; do
  out=$(cd "$VERIF" && VERIF_ROOT="$W/vroot" VERIF_REPO="$W/mut" ./check "$id" "${TIER:-quick}" 2>&1); code=$?
  if [ $code -eq 1 ] && echo "$out" | grep -q "^VIOLATION property=$id"; then
    echo "  DETECTED by $id ($(echo "$out" | grep -m1 fingerprint: | sed 's/^ *//'))"
  else
    echo "  MISSED by $id (exit $code)"; echo "$out" | tail -3 | sed 's/^/    /'; rc=1
  fi
done
exit $rc
