#!/bin/bash
# tools/mutant.sh <patch.diff> <property-id>...   — demonstrate detection.
# Copies /repo to a scratch directory, applies the patch, runs the repository's
# own test suite there (must still pass), then runs each named check against
# the copy (VERIF_REPO) and expects exit 1 with a VIOLATION line.  The copy is
# removed afterwards.  Prints one summary line per check.
set -u
PATCH=$(readlink -f "$1"); shift
VERIF=$(cd "$(dirname "$0")/.." && pwd)
W=$(mktemp -d /tmp/mutant.XXXXXX)
trap 'rm -rf "$W"' EXIT
rsync -a --exclude .git /repo/ "$W/repo/"
if ! (cd "$W/repo" && patch -p1 -s < "$PATCH"); then echo "MUTANT $(basename $PATCH): patch does not apply"; exit 2; fi
if ! (cd "$W/repo" && GOFLAGS= GOPROXY=off go build ./... 2>"$W/build.log"); then echo "MUTANT $(basename $PATCH): does not compile"; cat "$W/build.log"; exit 2; fi
if [ "${SKIP_BASELINE:-0}" != 1 ]; then
  if ! "$VERIF/tools/baseline.sh" "$W/repo" > "$W/base.log" 2>&1; then echo "MUTANT $(basename $PATCH): KILLED BY THE REPOSITORY'S OWN TESTS"; grep MISSING "$W/base.log" | head -5; exit 3; fi
fi
rc=0
for id in "$@"; do
  tier=${TIER:-quick}
  out=$(cd "$VERIF" && VERIF_ROOT="$W/vroot" VERIF_REPO="$W/repo" ./check "$id" "$tier" 2>&1); code=$?
  if [ $code -eq 1 ] && echo "$out" | grep -q "^VIOLATION property=$id"; then
    echo "MUTANT $(basename $PATCH): DETECTED by $id ($(echo "$out" | grep -m1 fingerprint: | sed 's/^ *//'))"
  else
    echo "MUTANT $(basename $PATCH): MISSED by $id (exit $code)"; echo "$out" | tail -3; rc=1
  fi
done
exit $rc
